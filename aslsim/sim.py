"""Client side of the fork servers: scenario encoding, result decoding, server life cycle."""
import errno
import hashlib
import json
import os
import struct
import subprocess

from . import build

# event kinds / fault actions / file classes: keep in sync with simrt.c
EV_OPEN, EV_READ, EV_WRITE, EV_SEEK, EV_CLOSE, EV_UNLINK, EV_STAT, EV_TIME, EV_EXIT = range(1, 10)
EVNAMES = {1: "open", 2: "read", 3: "write", 4: "seek", 5: "close", 6: "unlink", 7: "stat", 8: "time", 9: "exit"}
ACT_ERRNO, ACT_CRASH, ACT_TORN, ACT_SHORT = 1, 2, 3, 4
ACTNAMES = {1: "errno", 2: "crash", 3: "torn", 4: "short"}
(CLS_OTHER, CLS_CODE, CLS_LIST, CLS_SOURCE, CLS_INC, CLS_MSG, CLS_BIN, CLS_LOG, CLS_MAP, CLS_TRACE, CLS_STDOUT,
 CLS_STDERR, CLS_STDIN, CLS_KEY, CLS_SHARE, CLS_MAC, CLS_NULL) = range(17)
CLSNAMES = ["other", "code", "list", "source", "inc", "msg", "bin", "log", "map", "trace", "stdout", "stderr",
            "stdin", "key", "share", "mac", "null"]
CLS_ANY = 255
EV_STRUCT = struct.Struct("<IBBHIIiI")

SERVER_ENV = {"PATH": "/usr/bin:/bin", "LANG": "C"}


def p32(v):
    return struct.pack("<I", v & 0xFFFFFFFF)


def p64(v):
    return struct.pack("<Q", v & 0xFFFFFFFFFFFFFFFF)


def pstr(s):
    b = s if isinstance(s, (bytes, bytearray)) else s.encode("latin1")
    return p32(len(b)) + bytes(b)


def pfiles(disk):
    out = [p32(len(disk))]
    for k in sorted(disk):
        d = disk[k]
        if isinstance(d, str):
            d = d.encode("latin1")
        out.append(pstr(k))
        out.append(p32(len(d)))
        out.append(bytes(d))
    return b"".join(out)


DEFAULTS = dict(cwd="/w", clock=946684800, step_us=1000, tz_off=0, stdio_buf=0, read_chunk=0, max_events=300000,
                max_disk=64 << 20, fill=0xA5, heap_pad=0, stdout_kind=1, cpu=20, want_events=0, unbuf_out=0)


def encode_scenario(sc):
    g = lambda k: sc.get(k, DEFAULTS[k])
    b = [p32(2), pstr(g("cwd")), p64(g("clock")), p64(g("step_us")), p32(g("tz_off")), p32(g("stdio_buf")),
         p32(g("read_chunk")), p32(g("max_events")), p64(g("max_disk")), p32(g("fill")), p32(g("heap_pad")),
         p32(g("stdout_kind")), p32(g("cpu")), p32(g("want_events")), p32(g("unbuf_out"))]
    argv = sc["argv"]
    b.append(p32(len(argv)))
    b.extend(pstr(a) for a in argv)
    env = ["%s=%s" % (k, v) for k, v in sorted(sc.get("env", {}).items())]
    b.append(p32(len(env)))
    b.extend(pstr(e) for e in env)
    dirs = sc.get("dirs", ["/w"])
    b.append(p32(len(dirs)))
    b.extend(pstr(d) for d in dirs)
    b.append(pstr(sc.get("stdin", b"")))
    b.append(pfiles(sc.get("disk", {})))
    fl = sc.get("faults", [])
    b.append(p32(len(fl)))
    for f in fl:
        b.append(p32(f["op"]) + p32(f.get("cls", CLS_ANY)) + p32(f["action"]) + p32(f["nth"]) + p32(f.get("arg", 0))
                 + pstr(f.get("sub", "")))
    body = b"".join(b)
    return p32(len(body)) + body


class Result:
    __slots__ = ("kind", "code", "hash", "nev", "sim_us", "files", "events", "faults_fired", "short_reads",
                 "clock_reads", "bytes_written", "bytes_read", "order", "index")

    @property
    def outcome(self):
        if self.kind == 0:
            return "exit:%d" % self.code
        if self.kind == 1:
            return "signal:%d" % self.code
        if self.kind == 2:
            return "simcrash"
        return "budget:%d" % self.code

    def get(self, path):
        return self.files.get(path)

    @property
    def stdout(self):
        return self.files.get("<stdout>") or b""

    @property
    def stderr(self):
        return self.files.get("<stderr>") or b""

    def disk(self):
        """Surviving regular files (what the next process sees)."""
        return {k: v for k, v in self.files.items() if v is not None and not k.startswith("<")}

    def ev(self):
        """Decoded events as tuples (seq, kind, fault, file, off, len, res, aux)."""
        return [EV_STRUCT.unpack_from(self.events, i * 24) for i in range(len(self.events) // 24)]

    def digest(self):
        h = hashlib.sha1()
        h.update(("%s|%x|" % (self.outcome, self.hash)).encode())
        for k in sorted(self.files):
            v = self.files[k]
            h.update(k.encode("latin1") + b"\0" + (b"-" if v is None else hashlib.sha1(v).digest()))
        return h.hexdigest()


class ServerDied(Exception):
    pass


class Server:
    def __init__(self, exe, preload):
        r1, w1 = os.pipe()
        r2, w2 = os.pipe()
        # constant descriptor numbers in the server -> identical initial state in every worker
        env = dict(SERVER_ENV)
        env["ASLSIM_CTL"] = "198,199"

        os.dup2(r1, 198, inheritable=True)
        os.dup2(w2, 199, inheritable=True)
        self.exe = exe
        self.errpath = "/tmp/aslsim-stderr-%d-%d" % (os.getpid(), id(self) & 0xFFFF)
        self.errf = open(self.errpath, "w+b")
        os.unlink(self.errpath)
        try:
            self.p = subprocess.Popen([exe], env=env, pass_fds=(198, 199), stdin=subprocess.DEVNULL,
                                      stdout=subprocess.DEVNULL, stderr=self.errf, close_fds=True)
        finally:
            os.close(198)
            os.close(199)
        os.close(r1)
        os.close(w2)
        self.w = w1
        self.r = r2
        if preload is not None:
            self._send(preload)
            n = struct.unpack("<I", self._rd(4))[0]
            self._rd(n)

    def _send(self, b):
        mv = memoryview(b)
        while mv:
            try:
                n = os.write(self.w, mv)
            except BrokenPipeError:
                raise ServerDied()
            mv = mv[n:]

    def _rd(self, n):
        chunks = []
        while n:
            c = os.read(self.r, min(n, 1 << 20))
            if not c:
                raise ServerDied()
            chunks.append(c)
            n -= len(c)
        return b"".join(chunks)

    def sanitizer_text(self):
        """Text the sanitizer (or anything else) wrote to the real fd 2 since the last call."""
        self.errf.seek(0)
        d = self.errf.read()
        self.errf.seek(0)
        self.errf.truncate()
        return d

    def run(self, sc):
        self._send(encode_scenario(sc))
        n = struct.unpack("<I", self._rd(4))[0]
        d = self._rd(n)
        h = struct.unpack_from("<16I", d, 0)
        r = Result()
        r.kind, r.code = h[0], h[1]
        if r.code >= 0x80000000:
            r.code -= 1 << 32
        r.hash = h[2] | (h[3] << 32)
        r.nev = h[4]
        r.sim_us = h[5] | (h[6] << 32)
        nfiles, nevret = h[7], h[8]
        r.faults_fired, r.short_reads, r.clock_reads, r.bytes_written, r.bytes_read = h[9], h[10], h[11], h[12], h[13]
        o = 64
        files = {}
        order = []
        index = {}
        for _ in range(nfiles):
            pl = struct.unpack_from("<I", d, o)[0]
            o += 4
            path = d[o:o + pl].decode("latin1")
            o += pl
            ex, l, fidx = struct.unpack_from("<III", d, o)
            o += 12
            files[path] = d[o:o + l] if ex else None
            order.append(path)
            index[fidx] = path
            o += l
        r.files = files
        r.order = order
        r.index = index
        r.events = d[o:o + nevret * 24]
        return r

    def close(self):
        try:
            os.close(self.w)
            os.close(self.r)
        except OSError:
            pass
        try:
            self.p.wait(timeout=5)
        except Exception:
            self.p.kill()
        try:
            self.errf.close()
        except OSError:
            pass


_preload_cache = {}


def _walk(real, virt, out):
    for root, dirs, files in os.walk(real):
        dirs.sort()
        for f in sorted(files):
            p = os.path.join(root, f)
            rel = os.path.relpath(p, real)
            try:
                out[virt + "/" + rel] = open(p, "rb").read()
            except OSError:
                pass


def preload_blob(bd, prog, with_corpus):
    key = (bd, prog, with_corpus)
    if key in _preload_cache:
        return _preload_cache[key]
    files = {}
    for f in sorted(os.listdir(bd)):
        if f.endswith(".msg"):
            files["/sim/bin/" + f] = open(os.path.join(bd, f), "rb").read()
    if prog == "asl" and with_corpus:
        repo = build.repo_dir()
        _walk(os.path.join(repo, "include"), "/sim/inc", files)
        _walk(os.path.join(repo, "tests"), "/sim/tests", files)
    body = p32(1) + pfiles(files)
    blob = p32(len(body)) + body
    _preload_cache[key] = blob
    return blob


class Sim:
    """One per worker process: lazily started fork servers per (variant, program)."""

    def __init__(self):
        self.servers = {}
        self.bd = {}
        self.restarts = 0

    def build_dir(self, variant):
        if variant not in self.bd:
            self.bd[variant] = build._variant_dir(variant)
        return self.bd[variant]

    def server(self, variant, prog):
        k = (variant, prog)
        s = self.servers.get(k)
        if s is None:
            bd = self.build_dir(variant)
            s = Server(os.path.join(bd, prog), preload_blob(bd, prog, True))
            self.servers[k] = s
        return s

    def run(self, prog, sc, variant="asan"):
        """Run one simulated process.  argv[0] is filled in; returns Result (with .san = sanitizer text)."""
        sc = dict(sc)
        sc["argv"] = ["/sim/bin/" + prog] + list(sc.get("argv", []))
        for attempt in range(2):
            s = self.server(variant, prog)
            try:
                r = s.run(sc)
                r_san = s.sanitizer_text()
                return r, r_san
            except ServerDied:
                self.restarts += 1
                s.close()
                del self.servers[(variant, prog)]
        raise ServerDied("%s/%s died twice" % (variant, prog))

    def close(self):
        for s in self.servers.values():
            s.close()
        self.servers = {}


def scenario_to_json(sc):
    """JSON-safe copy (bytes -> latin1 strings) for replay files."""
    def conv(v):
        if isinstance(v, (bytes, bytearray)):
            return {"__b": bytes(v).decode("latin1")}
        if isinstance(v, dict):
            return {k: conv(x) for k, x in v.items()}
        if isinstance(v, (list, tuple)):
            return [conv(x) for x in v]
        return v
    return conv(sc)


def scenario_from_json(j):
    def conv(v):
        if isinstance(v, dict):
            if set(v.keys()) == {"__b"}:
                return v["__b"].encode("latin1")
            return {k: conv(x) for k, x in v.items()}
        if isinstance(v, list):
            return [conv(x) for x in v]
        return v
    return conv(j)
