"""C03 - no input makes the assembler or a utility crash or hang.

Fault spaces (DESIGN.md section 4, C03): E1 truncation, E2 bit flips, E3 field edits of reference code
files; E4 crash points of the asl code-file writer (torn files fed to the tools); E5 source EOF at
every line boundary of the golden corpus; E6 byte-level mutation of golden sources; E7 finite
pseudo-instruction vocabulary; E8 raw bytes.  Oracle: documented normal exit, no signal, no
AddressSanitizer report, no budget exit.
"""
import hashlib
import re
import struct

from .. import codefile, corpus, oracle, pool
from ..driver import chash, ddmin
from ..rng import Rng, mix
from ..sim import (ACT_CRASH, ACT_TORN, CLS_CODE, EV_OPEN, EV_SEEK, EV_WRITE)

ID = "C03"
LEVEL = "fault_enumeration"
VARIANTS = ("asan",)
EVAL_RUNS = True
RULE = ("E1 every prefix, E2 bit flips (all bits of non-payload bytes, 1 [quick] / 3 [thorough] per payload byte), "
        "E3 field edits, E4 every write/seek crash point (+torn variants) of the asl code-file writer, of the "
        "reference code files x tool matrix; E5 golden sources cut at line boundaries; E6 byte mutations of golden "
        "sources; E7 pseudo-instruction x boundary-argument vocabulary on 6 CPUs (singles enumerated in thorough, "
        "sampled in quick; pairs/triples sampled); E8 raw bytes. non-trivial = input differs from a valid one by "
        ">=1 fault/mutation (or is generated) and the program consumed input up to the faulted offset (stdio reads "
        "ahead in 4 KiB blocks, so 'consumed' is bytes_read >= offset); distinct by scenario content hash")
COMPONENTS = {"real": ["asl, plist, pbind, p2bin, p2hex, alink, dasl: all repository code, ASan-instrumented, hooks H2 (line budget)"],
              "stubbed": ["storage below FILE* (in-memory disk)", "clock", "environment", "cwd", "stdin/stdout/stderr sinks"],
              "untouched": ["glibc stdio", "libm"]}
ASSUMPTIONS = ["termination only claimed for inputs without WHILE and without self-recursive macros",
               "argument magnitudes capped (<= 70000 repetitions); out-of-memory behaviour not provoked",
               "hang = event budget (300k file events), line budget (hook H2) or 20 s CPU; counted only if it replays"]

LINE_BUDGET = 400000
CPU_BACKSTOP_SHAPE = 0x24242424  # stands in for the event-log hash of a run ended by the CPU backstop

# ------------------------------------------------------------------ reference programs (E1-E4)
REF_PROGS = {
    "z80": "\tcpu z80\n\torg 100h\nstart:\tld a,5\n\tjp start\n\tdb 1,2,3\n\tds 10\n\tdw 1234h\n\torg 8000h\n\tdb \"hello\"\n\tend start\n",
    "8051": "\tcpu 8051\n\tsegment code\n\torg 0\n\tmov a,#1\n\tsjmp $\n\tsegment data\n\torg 30h\nv1:\tdb ?\n\tsegment xdata\n\torg 1000h\n\tdb 1,2\n\tsegment idata\n\torg 80h\n\tdb 5\n\tsegment bitdata\nflag:\tdb ?\n\tsegment code\n\tdb 9,8,7\n",
    "pic": "\tcpu 16c84\n\torg 0\n\tmovlw 1\n\tgoto 0\n\tdata 1,2,3\n\tres 4\n\tdata 5\n",
    "c30": "\tcpu 320c30\n\torg 0\n\tword 1,2,3\n\tbss 4\n\tword 12345678h\n",
    "68k": "\tcpu 68000\n\torg $1000\nmain:\tmoveq #1,d0\n\tbra.s main\n\tdc.b 1\n\tdc.w 2\n\tdc.l main\n\tend main\n",
    "56k": "\tcpu 56000\n\tsegment code\n\torg $100\n\tnop\n\tsegment xdata\n\torg 0\n\tdc 1\n\tdc 2\n\tsegment ydata\n\torg 10\n\tdc 3\n",
    "multi": "\tcpu 6502\n\torg $200\n\tlda #1\n\tcpu z80\n\tld a,2\n\tcpu 8051\n\tmov a,#3\n\tcpu 68000\n\tpadding off\n\tdc.b 4\n",
    "reloc": "\tcpu 68000\n\trseg\nfoo:\tdc.l foo\n\tdc.w 1\n\texport_sym foo\n\tds.b 4\n\tdc.l foo\n",
    "reloc-imp3": "\tcpu 8051\n\textern_sym abc\n\tmov a,#1\n\tljmp abc\n\tmov dptr,#abc\n",
    "reloc-imp14": "\tcpu 8051\n\textern_sym a\n\textern_sym abcd\n\tmov a,#1\n\tljmp a\n\tmov dptr,#abcd\n\tljmp abcd\n",
    "reloc-imp25": "\tcpu 68000\n\textern_sym ab\n\textern_sym abcde\n\tdc.l ab\n\tdc.w 1\n\tdc.l abcde\n",
    "big": "\tcpu z80\n\torg 0\n\tdb 300 dup (0aah)\n\tdb 300 dup (055h)\n",
    # importer whose external names the partner file below (LINK_PARTNER) exports, followed by a longer record
    "reloc-link": "\tcpu 8051\n\textern_sym abc\n\textern_sym de\n\tmov a,#1\n\tljmp abc\n\tmov dptr,#de\n\torg 400h\n\tdb 300 dup (7)\n",
    # data up to the very top of the 32-bit address space, and straddling 64 KiB / 1 MiB boundaries of the hex formats
    "hi32": "\tcpu 68020\n\torg $fffffff8\n\tdc.b 1,2,3,4,5,6,7,8\n\torg $ffff\n\tdc.b 9,10\n\torg $fffff\n\tdc.b 11,12\n",
    "hi16": "\tcpu z80\n\torg 0fff8h\n\tdb 1,2,3,4,5,6,7,8\n\tend 0ffffh\n",
}
LINK_PARTNER = "\tcpu 8051\n\torg 200h\nabc:\tnop\nde:\tnop\n\texport_sym abc\n\texport_sym de\n"
BIG64K = "\tcpu 68000\n\torg 0\n\tpadding off\n" + "\tdc.b [16384]1,2,3,4\n" + "\tdc.b 5\n"


def sc_asl(src, opts=(), name="a", extra_disk=None, **kw):
    disk = {"/w/%s.asm" % name: src if isinstance(src, bytes) else src.encode("latin1")}
    if extra_disk:
        disk.update(extra_disk)
    env = {"LANG": "C", "ASL_VERIF_MAX_LINES": str(LINE_BUDGET)}
    env.update(kw.pop("env", {}))
    # diagnostics go to an unbuffered stream: one event per line.  The event budget must cover the largest legitimate
    # output (REPT 70000 x 6 erroneous statements), so that only genuinely endless runs hit it.
    sc = dict(argv=["-q", "-i", "/sim/inc"] + list(opts) + ["%s.asm" % name], cwd="/w", disk=disk, env=env, max_events=1400000, cpu=30)
    sc.update(kw)
    return sc


_refs = None
_partner = None


def ref_files(sim):
    """Reference code files: asl outputs of REF_PROGS, their pbind (short-header) forms, synthesized ones."""
    global _refs
    if _refs is not None:
        return _refs
    refs = {}
    for name in sorted(REF_PROGS):
        r, san = sim.run("asl", sc_asl(REF_PROGS[name]))
        p = r.get("/w/a.p")
        if r.outcome != "exit:0" or p is None:
            raise RuntimeError("reference program %s does not assemble: %s %r" % (name, r.outcome, r.stderr[:300]))
        refs[name] = p
        r2, san = sim.run("pbind", dict(argv=["a.p", "b.p"], cwd="/w", disk={"/w/a.p": p}, env={"LANG": "C"}))
        b = r2.get("/w/b.p")
        if r2.outcome == "exit:0" and b is not None and b != p:
            refs[name + "-bound"] = b
    refs["synth-short"] = codefile.build([(0x51, 1, 1, 0x100, b"\x01\x02\x03"), (0x11, 1, 1, 0x200, b"\xEA" * 5)],
                                         entry=0x100, short=True)
    refs["synth-grans"] = codefile.build([(0x70, 1, 2, 0, b"\x01\x30\x02\x30"), (0x76, 1, 4, 0x10, b"\x01\x02\x03\x04"),
                                          (0x31, 2, 1, 0x30, b""), (0x31, 4, 1, 0xFFFF, b"\x55")])
    global _partner
    rp, san = sim.run("asl", sc_asl(LINK_PARTNER))
    _partner = rp.get("/w/a.p")
    if rp.outcome != "exit:0" or _partner is None:
        raise RuntimeError("link partner does not assemble: %s %r" % (rp.outcome, rp.stderr[:300]))
    _refs = refs
    return refs


# ------------------------------------------------------------------ tool matrix
HEXFMTS = ["Moto", "MOS", "Intel", "Intel16", "Intel32", "Tek", "DSK", "Atmel", "Mico8", "C"]


def tool_matrix(full, sel):
    """List of (prog, argv) reading /w/f.p.  full: whole matrix; else a rotating subset chosen by sel."""
    base = [("plist", ["f.p"]),
            ("pbind", ["f.p", "out.p"]),
            ("p2bin", ["f.p", "out.bin", "-r", "0x-0x"]),
            ("p2hex", ["f.p", "out.hex"]),
            ("alink", ["f.p", "out.p"]),
            ("alink", ["f.p", "g.p", "out.p"])]  # g.p exports the names the reference files import
    ext = [("pbind", ["f.p", "out.p", "-f", "$51,$31,$01"]),
           ("p2bin", ["f.p", "out.bin"]),
           ("p2bin", ["f.p", "out.bin", "-r", "$100-$1ff", "-l", "0"]),
           ("p2bin", ["f.p", "out.bin", "-r", "0x-0x", "-m", "even", "-s"]),
           ("p2bin", ["f.p", "out.bin", "-r", "0x-0x", "-S", "B4", "-e", "0x10"]),
           ("p2bin", ["f.p", "out.bin", "-r", "0x-0x", "-segment", "data"]),
           ("p2bin", ["f.p", "out.bin", "-r", "0x-0x", "-m", "byte3"]),
           ("p2hex", ["f.p", "out.hex", "-r", "0x-0x", "-a"]),
           ("p2hex", ["f.p", "out.hex", "-r", "$0-$ffff", "-l", "2"]),
           ("p2hex", ["f.p", "out.hex", "-segment", "xdata", "-R", "0x1000"]),
           ("p2hex", ["f.p", "out.hex", "-m", "2", "-i", "1", "+5"]),
           ("alink", ["f.p", "f.p", "out.p"])]
    ext += [("p2hex", ["f.p", "out.hex", "-F", f]) for f in HEXFMTS]
    if full:
        return base + ext
    return base + [ext[sel % len(ext)], ext[(sel * 7 + 3) % len(ext)]]


# ------------------------------------------------------------------ symbol stack x kinds of value (E13)
SS_VALUES = ["5", "-1", "1.5", "\"hello\"", "\"" + "L" * 300 + "\"", "\"\"", "'ab'", "d0", "(1e308*1e308)-(1e308*1e308)"]


def symstack_sources():
    out = []
    for v1 in SS_VALUES:
        for v2 in SS_VALUES:
            for shape in range(4):
                if shape == 0:
                    body = "s\tset %s\n\tpushv ,s\ns\tset %s\nt\tset %s\n\tpopv ,s\n\tmessage \"\\{s}\"\ns\tset %s\n" % (v1, v2, v2, v1)
                elif shape == 1:
                    body = "s\tset %s\n\tpushv st,s\n\tpushv st,s\ns\tset %s\n\tpopv st,s\n\tpopv st,s\n\tpopv st,s\n" % (v1, v2)
                elif shape == 2:
                    body = "s\tset %s\nu\tset %s\n\tpushv st,s,u\n\tpopv st,u,s\ns\tset %s\nu\tset %s\n" % (v1, v2, v2, v1)
                else:
                    body = "s\tset %s\n\tpushv st,s\ns\tset %s\n" % (v1, v2)  # never popped
                out.append("\tcpu 68000\n" + body + "xq2p\tset fwq2p\nfwq2p\tequ 5\n")
    # user-defined functions whose definitions call themselves, each other, or nest deeply without recursion
    for body in ["f\tfunction x,f(x)+1\n\tdc.b f(1)\n", "f\tfunction x,g(x)\ng\tfunction x,f(x+1)\n\tdc.b g(2)\n",
                 "f\tfunction x,y,f(y,x)\n\tdc.b f(1,2)\n", "f\tfunction x,x+1\n\tdc.b " + "f(" * 300 + "1" + ")" * 300 + "\n",
                 "f\tfunction x,f(f(x))\n\tdc.b f(1)\n", "f\tfunction x,\"\\{f(x)}\"\n\tdc.b f(1)\n",
                 "\tnestmax 0\nf\tfunction x,x+1\n\tdc.b f(f(f(1)))\n", "\tnestmax 3\nf\tfunction x,x+1\n\tdc.b f(f(f(f(f(1)))))\n"]:
        out.append("\tcpu 68000\n" + body)
    return out


# ------------------------------------------------------------------ section-local declarations (E14)
def secdecl_source(rng):
    """Sections with FORWARD / PUBLIC / GLOBAL declarations in every order relative to each other and to the definitions:
    each kind keeps a list of names still to be defined, walked and pruned at every label and at ENDSECTION."""
    L = ["\tcpu z80"]
    cnt = [0]

    def section(depth):
        cnt[0] += 1
        sn = "s%d" % cnt[0]
        L.append("\tsection %s" % sn)
        names = rng.sample(["a", "b", "c", "d", "e", "f", "g", "h"], rng.randint(1, 6))
        stmts = []
        for nm in names:
            kind = rng.choice(["forward", "public", "global", "public", "forward"])
            d = "\t%s %s" % (kind, nm)
            if kind == "public" and depth and rng.chance(0.3):
                d += ":parent"
            stmts.append(d)
            if rng.chance(0.15):
                stmts.append("\t%s %s" % (rng.choice(["forward", "public", "global"]), nm))  # declared twice / as two kinds
        if rng.chance(0.4):
            stmts = ["\t%s %s" % (k, ",".join(x.split()[1] for x in stmts if x.split()[0] == k)) for k in ("forward", "public", "global")
                     if any(x.split()[0] == k for x in stmts)]
            rng.shuffle(stmts)
        defs = []
        for nm in names:
            r = rng.below(10)
            if r < 7:
                defs.append(rng.choice(["%s:\tnop", "%s\tequ 5", "%s:", "%s\tset 3"]) % nm)
            elif r == 7:
                defs.append("\tjp %s" % nm)  # used, never defined
        rng.shuffle(defs)
        body = stmts + defs
        if rng.chance(0.3):
            rng.shuffle(body)  # definitions in front of their declarations
        for b in body:
            L.append(b)
            if depth < 2 and rng.chance(0.12):
                section(depth + 1)
        r = rng.below(12)
        if r == 0:
            return  # section left open
        L.append("\tendsection" + (" " + sn if r < 4 else " wrong" if r == 4 else ""))
    for _ in range(rng.randint(1, 4)):
        section(0)
        if rng.chance(0.3):
            L.append("\tjp %s" % rng.choice(["a", "b", "s1_c", "s2_a"]))
    return "\n".join(L) + "\n"


# ------------------------------------------------------------------ line lengths around buffer capacities (E12)
LL_LENGTHS = list(range(1010, 1032)) + list(range(1140, 1160)) + list(range(2040, 2052)) + [254, 255, 256, 257, 4095, 4096, 4097]
LL_SHAPES = ["plain", "macro", "irp", "rept", "macro-tabs", "call", "comment", "string"]


def longline_source(n, shape):
    """A source whose interesting line is exactly n characters long (before any tab expansion)."""
    def line(tail, lead="\tdb ", tabs=False):
        body = lead + "1," * 100
        pad = n - len(body) - len(tail)
        if pad < 0:
            body = lead
            pad = n - len(body) - len(tail)
        return body + (("\t" * (pad // 2) + " " * (pad - pad // 2)) if tabs else " " * pad) + tail
    if shape == "plain":
        return "\tcpu z80\n%s\n" % line("7")
    if shape == "macro":
        return "\tcpu z80\nm\tmacro pp\n%s\n\tendm\n\tm 5+10\n" % line("pp")
    if shape == "macro-tabs":
        return "\tcpu z80\nm\tmacro pp\n%s\n\tendm\n\tm 5+10\n" % line("pp", tabs=True)
    if shape == "irp":
        return "\tcpu z80\n\tirp pp,7+8,9\n%s\n\tendm\n" % line("pp")
    if shape == "rept":
        return "\tcpu z80\n\trept 2\n%s\n\tendm\n" % line("7", tabs=True)
    if shape == "call":
        return "\tcpu z80\nm\tmacro a,b\n\tdb a\n\tendm\n%s\n" % line("9", lead="\tm ")
    if shape == "comment":
        return "\tcpu z80\n\tnop ;%s\n\tnop\n" % ("x" * max(0, n - 6))
    return "\tcpu z80\n\tdb \"%s\"\n" % ("s" * max(0, n - 6))


# ------------------------------------------------------------------ symbol faults in golden sources (E11)
_IDENT = re.compile(rb"[A-Za-z_][A-Za-z0-9_]{2,}")


def symfault_positions(t):
    """(line index, start, end) of every identifier in an operand field of golden source t."""
    out = []
    for li, ln in enumerate(t.src.split(b"\n")):
        body = ln.split(b";")[0]
        if not body.strip():
            continue
        # skip the label (text at column 0) and the mnemonic
        m = re.match(rb"^(\S+)?[ \t]+(\S+)", body)
        if not m:
            continue
        for im in _IDENT.finditer(body, m.end()):
            out.append((li, im.start(), im.end()))
    return out


def symfault_apply(t, pos, variant, rng_pick):
    lines = t.src.split(b"\n")
    li, a, b = pos
    ln = lines[li]
    if variant == 1:
        lab = re.match(rb"^([A-Za-z_][A-Za-z0-9_.]*):?", ln)
        new = lab.group(1) if lab else b"nothere_q"  # the statement refers to itself
    elif variant == 2:
        new = rng_pick  # some other identifier of the same file: wrong kind of thing in this place
    else:
        new = b"nothere_q"
    lines[li] = ln[:a] + new + ln[b:]
    return b"\n".join(lines), lines[li]


# ------------------------------------------------------------------ statements that read further files (E10)
FR_NUMS = [None, "0", "1", "2", "99", "100", "101", "200", "-1", "-2", "2147483647", "2147483648", "4294967280",
           "4294967295", "4294967296", "9223372036854775807", "-9223372036854775808", "65535", "65536", "70000"]
FR_BLOBS = {"empty.bin": b"", "one.bin": b"\x5a", "blob.bin": bytes(range(100)), "big.bin": bytes(i * 7 & 255 for i in range(70000))}
FR_INCS = {"self.inc": b"\tnop\n\tinclude \"self.inc\"\n", "nonl.inc": b"\tnop\n\tnop", "bin.inc": bytes(range(256)) * 2,
           "long.inc": b"\tdb " + b"1," * 3000 + b"1\n", "cr.inc": b"\tnop\r\n\tnop\r", "nul.inc": b"\tnop\n\0\0\0\n\tnop\n",
           "a.inc": b"\tinclude \"b.inc\"\n", "b.inc": b"\tinclude \"a.inc\"\n", "open.inc": b"\tif 1\nm\tmacro\n"}


def fileread_cases():
    out = []
    for blob in sorted(FR_BLOBS):
        for off in FR_NUMS:
            for ln in FR_NUMS:
                if off is None and ln is not None:
                    continue
                out.append("\tbinclude \"%s\"%s%s" % (blob, "" if off is None else "," + off, "" if ln is None else "," + ln))
    for inc in sorted(FR_INCS):
        out.append("\tinclude \"%s\"" % inc)
        out.append("\tinclude %s" % inc)
        out.append("\tif 0\n\tinclude \"%s\"\n\tendif\n\tinclude \"%s\"\n\tinclude \"%s\"" % (inc, inc, inc))
    return out


# ------------------------------------------------------------------ tool option swarm (E9)
T_RANGES = ["0x-0x", "$0-$ffff", "$100-$1ff", "0-0", "$ffffffff-$ffffffff", "5-2", "0x-$10", "$fffffff0-0x", "x", "",
            "1", "-", "0-$7fffffff", "$1000-$1003", "0x-0", "$8000-0x"]
T_NUMS = ["0", "1", "2", "3", "4", "5", "6", "7", "8", "15", "16", "17", "32", "253", "254", "255", "256", "65535",
          "65536", "-1", "$ffffffff", "$7fffffff", "x", "", "0x10", "$1000"]
T_SEGS = ["code", "data", "xdata", "ydata", "idata", "bitdata", "io", "reg", "romdata", "eedata", "x", "", "CODE"]
T_FILT = ["$51", "$51,$31", "$01", "$76", "$70,$76", "x", "", "$100", "$51,", "0"]
T_TOOLOPTS = {
    "p2hex": [("-f", T_FILT), ("-r", T_RANGES), ("-R", T_NUMS), ("-a", None), ("-i", ["0", "1", "2", "3", "x"]),
              ("-m", ["0", "1", "2", "3", "4", "x"]), ("-F", HEXFMTS + ["x", "default", ""]), ("-5", None), ("-s", None),
              ("-d", T_RANGES), ("-e", T_NUMS), ("-l", T_NUMS), ("-k", None), ("-M", ["1", "2", "3", "0", "4", "x"]),
              ("-q", None), ("-segment", T_SEGS), ("-avrlen", ["2", "3", "1", "4", "0", "x"]),
              ("-cformat", ["dSEl", "x", "", "DSELdsel", "d", "sel"]), ("+5", None), ("+a", None), ("+s", None)],
    "p2bin": [("-f", T_FILT), ("-r", T_RANGES), ("-s", None), ("-l", T_NUMS), ("-e", T_NUMS), ("-k", None), ("-q", None),
              ("-m", ["all", "even", "odd", "byte0", "byte1", "byte2", "byte3", "word0", "word1", "x", ""]),
              ("-S", ["B4", "L4", "B2", "L2", "L1", "B1", "x", "B9", "4", "L0", "B8", "L8"]), ("-segment", T_SEGS), ("+s", None)],
    "pbind": [("-f", T_FILT), ("-q", None)],
    "plist": [("-q", None)],
    "alink": [("-v", None), ("-v", None)],
}


PAIR_REFS = ["c30", "68k", "pic", "8051", "synth-grans", "56k", "reloc", "hi32", "hi16"]


def tool_pairs(prog):
    """All unordered pairs of (option, value) settings of one utility (a value-less option pairs as itself)."""
    single = []
    for o, vals in T_TOOLOPTS[prog]:
        if vals is None:
            single.append([o])
        else:
            single += [[o, v] for v in vals]
    out = []
    for i in range(len(single)):
        for j in range(i, len(single)):
            out.append(single[i] + (single[j] if j != i else []))
    return out


def gen_toolopt(rng, refs):
    prog = rng.choice(["p2hex", "p2hex", "p2hex", "p2bin", "p2bin", "pbind", "plist", "alink"])
    name = rng.choice(sorted(refs))
    b = refs[name]
    # mostly valid files: the options are the fault here; sometimes one field edit on top
    if rng.chance(0.25):
        edits = field_edits(b, False)
        desc, b = rng.choice(edits)
        name += "+" + desc
    argv = []
    for _ in range(rng.below(5)):
        o, vals = rng.choice(T_TOOLOPTS[prog])
        argv.append(o)
        if vals is not None:
            argv.append(rng.choice(vals))
    files = ["f.p"]
    if prog in ("pbind", "alink", "p2bin", "p2hex") and rng.chance(0.4):
        files.append(rng.choice(["g.p", "g.p", "f.p", "*.p", "nothere.p"]))
    if prog != "plist":
        files.append(rng.choice(["out", "out.x", "f.p"]) if rng.chance(0.15) else "out.p" if prog in ("pbind", "alink") else "out.o")
    pos = rng.below(3)
    argv = files + argv if pos == 0 else argv + files if pos == 1 else files[:1] + argv + files[1:]
    return prog, argv, name, b


def sc_tool(prog, argv, fbytes, extra=None):
    disk = {"/w/f.p": fbytes}
    if _partner is not None:
        disk["/w/g.p"] = _partner
    if extra:
        disk.update(extra)
    return dict(argv=list(argv), cwd="/w", disk=disk, env={"LANG": "C"}, max_disk=8 << 20)


# ------------------------------------------------------------------ vocabulary (E7)
PSEUDO = ("ALIGN ASSUME BINCLUDE CASE CHARSET CODEPAGE CPU DEPHASE ELSE ELSECASE ELSEIF END ENDCASE ENDEXPECT ENDIF "
          "ENDM ENDS ENDSECTION ENDSTRUC ENDSTRUCT ENDUNION ENUM ENUMCONF EQU ERROR EVAL EXITM EXPECT FATAL FORWARD "
          "FUNCTION GLOBAL IF IFB IFDEF IFEXIST IFNB IFNDEF IFNEXIST IFNUSED IFUSED INCLUDE INTSYNTAX IRP IRPC IRPN "
          "LABEL LISTING MACEXP MACEXP_DFT MACEXP_OVR MACRO MESSAGE NESTMAX MAXNEST NEWPAGE NEXTENUM ORG OUTRADIX PAGE "
          "PAGESIZE PHASE POPV PRTEXIT PRTINIT PUBLIC PUSHV RADIX RELAXED COMPMODE REPT RESTORE RORG RSEG SAVE SECTION "
          "SEGMENT SET SHARED SHIFT STRUC STRUCT SWITCH TITLE UNION WARNING PADDING PACKING BIGENDIAN SUPMODE FPU PMMU "
          "FULLPMMU MAXMODE EXTMODE LWORDMODE SRCMODE WRAPMODE BRANCHEXT Z80SYNTAX CKPT EMULATED DOTTEDSTRUCTS "
          "DC DC.B DC.W DC.L DC.Q DC.S DC.D DC.X DC.P DC.A DS DS.B DS.W DS.L DS.X DB DW DD DQ DT DN DO "
          "BYT FCB BYTE ADR FDB WORD LONG SINGLE DOUBLE EXTENDED FLOAT DATA FCC DFS RMB BLOCK SPACE RES BSS "
          "ASCII ASCIZ STRING RSTRING TEXT ZERO LTORG BIT DBIT SFR SFRB PORT REG NAMEREG DEFBIT DEFBITFIELD "
          "LIV RIV XSFR YSFR READ CONSTANT DEFINE UNDEF").split()
ARGS = ["", "0", "1", "-1", "2147483648", "9223372036854775807", "-9223372036854775808", "70000", "65536",
        '""', '"' + "a" * 300 + '"', '"abc', "'", "'a'", "'ab", "]", "[", "(", ")", ",", "1,2", "x", "x,y", "1,,2",
        'substr("abc",-1,5)', 'substr("abc",1,-5)', "1/0", "1 mod 0", "1.0e400", "$", "*", "sym[", "sym]", "[sym]",
        "x[x]", "strlen(", "\\{", "{", "}", "0x", "1e", ".", "..", "a.b", "%", "lo(", "-", "+", "!", "~~1", "1<<64",
        "1>>-1", "1#", "2^70", '"\\"', '"\\x"', '"\\{1/0}"', '"\\{undefined}"', "on", "off", "code", "nothing",
        "1,2,3,4,5,6,7,8,9,10,11,12,13,14,15,16,17,18,19,20,21,22,23,24,25", "x:", "#1", "(1", "1)", "d0", "a,b,c",
        "z80", "68000", "a5:nothing", "[3]5", "[70000]1", "3 dup (1)", "3 dup (", "dup", "1.5", "-1.5e-320", "\"a\",1",
        "upstring(\"x\")", "val(\"1/0\")", "sqrt(-1)", "ln(0)", "1=>", "a\tb", ";", "\x80\xff", "x\\x", "%101", "0ffh",
        "@17", "$$$", "charfromstr(\"a\",5)", "substr(\"\",0,0)", "strstr(\"\",\"\")", "cpu", "mompass", "moment",
        "1 2", "\"\\0\"", "\"\\i\"", "\"\\1000\"", "\"\\x1000\"", "(1<<63)/(0-1)", "(1<<63)#(0-1)", "1<<63", "0-(1<<63)",
        # floating point corner values: infinities, NaN, denormals
        "1e308*1e308", "(1e308*1e308)-(1e308*1e308)", "-1e308*1e308", "1e-320", "0.0/1e400", "1e308*10.0", "sqrt(2)", "1.0e+", "2.5e-1"]
CPUS = ["z80", "68000", "8051", "6502", "320c30", "16c84"]
# degenerate operands substituted into instruction lines of the golden corpus (operand-level fault injection)
OPERAND_POOL = ["", "()", "[]", "(", ")", "[", "]", "+", "-", "#", "@", "(,)", "(,x)", "[,]", "x+", "-x", "(x", "x)", "#(", "@()", "a:", ":", "*",
                "<", ">", "{", "}", "'", "\"", "1(", "(1)+", "-(", "$", "0x", "()+", "-()", "@(,)", "(,,)", "((", "))", "[[", "]]", "(]", "[)",
                "#", "##1", "@@", "+,", " ", "(a,b,c,d,e,f)", "[a,b,c,d,e]", "a.b.c.d", ".", "..w", ".l", "1:2:3", "r0:r1:r2", "x,x,x,x,x,x,x,x"]
# macro definitions x call argument lists (enumerated completely)
MAC_DECLS = ["", "a", "a,b", "a=5", "a,b=7", "a=1,b=2", "a,b,c", "{GLOBALSYMBOLS}", "a,{INTLABEL}", "lbl,a,{INTLABEL}", "a,{NOEXPAND}", "a=\"x,y\""]
MAC_BODIES = ["\tdb a", "\tdb a,b", "\tdb ALLARGS", "\tdb ARGCOUNT", "\tshift\n\tdb a", "\tshift\n\tshift\n\tdb ARGCOUNT", "\tif ARGCOUNT>1\n\texitm\n\tendif\n\tdb 1",
              "\tirp x,ALLARGS\n\tdb x\n\tendm", "\tdb \"a\"", "\tnop"]
MAC_CALLS = ["", "1", "1,2", "1,2,3", "1,2,3,4,5,6,7,8,9", "a=1", "a=1,a=2", "b=2,a=1", "b=2,a=1,7", "a=3,b=4,c=5,d=6", "zz=1", "1,a=2", ",", ",,", "1,,3",
             "=", "a=", "=1", "a==1", "\"a=1\"", "(1,2)", "[1,2]", "<1,2>", "a=b=c", "1 2", "'", "\"", "a=\"", "ALLARGS", "ARGCOUNT"]
# construct interplay (enumerated completely): opener / inner statement / closer / stray statement
OPENERS = [("m1\tmacro", "\tendm\n\tm1"), ("\tirp x,1,2", "\tendm"), ("\tirpc x,\"ab\"", "\tendm"), ("\tirpn 1,x,1,2", "\tendm"),
           ("\trept 2", "\tendm"), ("\tif 1", "\tendif"), ("\tif 0", "\tendif"), ("\tswitch 1\n\tcase 1", "\tendcase"),
           ("s1\tstruct", "s1\tendstruct"), ("u1\tunion", "u1\tendunion"), ("\tsection sec", "\tendsection"), ("\tsave", "\trestore"),
           ("\tphase 100", "\tdephase"), ("\texpect 1200", "\tendexpect"), ("\twhile 0", "\tendm"), ("f1\tfunction x,x+1", "")]
INNERS = ["\texitm", "\tshift", "\trestore", "\tsave", "\tdephase", "\tendm", "\tendif", "\tendstruct", "\tendsection", "\tendcase",
          "\tendexpect", "\tend", "\telse", "\tcase 2", "\telsecase", "\tdb 1", "lab:", "\torg 5", "\tcpu 6502", "\tinclude \"x.inc\"",
          "\tsegment data", "\tpopv s,lab", "\tpushv s,lab", "\tglobal lab", "\tpublic lab:parent", "\tforward lab", "\terror \"e\"", "\tnop"]
CLOSERS = ["", "\tendm\n", "\tendif\n", "\tends\n", "\tendsection\n", "\tendcase\n", "\tendm\n\tendm\n"]


BIG_COUNTS = {"70000", "65536", "68000", "2147483648", "9223372036854775807", "1<<63", "[70000]1"}


def tame(op, arg):
    """Repetition counts stay small: a REPT of 2^31 iterations legitimately runs for hours (the property speaks of time
    proportional to the work described), and symbol-table growth per iteration is quadratic without -A."""
    first = arg.split(",")[0]
    # a multi-character string constant is a number too ("\x1000" is 0x103030: a million iterations)
    if op.upper() in ("REPT", "IRPN", "WHILE") and (first in BIG_COUNTS or first[:1] in "\"'"):
        return ",".join(["3000"] + arg.split(",")[1:])
    return arg


def gen_vocab_program(rng, n_stmt):
    cpu = rng.choice(CPUS)
    lines = ["\tcpu %s" % cpu]
    for _ in range(n_stmt):
        op = rng.choice(PSEUDO)
        arg = rng.choice(ARGS)
        if rng.chance(0.25):
            arg = arg + "," + rng.choice(ARGS)
        lab = rng.choice(["", "", "lab", "x", ".l", "$$t", "lab:", "1x"])
        lines.append("%s\t%s\t%s" % (lab, op if rng.chance(0.8) else op.lower(), tame(op, arg)))
    src = "\n".join(lines) + "\n" + rng.choice(CLOSERS)
    return src


OPT_SWARM = [["-L"], ["-u"], ["-C"], ["-s"], ["-g", "MAP"], ["-g", "NOICE"], ["-g", "ATMEL"], ["-P"], ["-M"], ["-x"],
             ["-n"], ["-A"], ["-U"], ["-relaxed"], ["-compmode"], ["-maxerrors", "3"], ["-x", "-x"], ["-E", "!1"],
             ["-gnuerrors"], ["-a"], ["-c"], ["-p"], ["-h"], ["-l"], ["-Werror"], ["-t", "3"], ["-I"],
             # defined symbols given and taken away again on the command line
             ["-D", "FOO"], ["+D", "BAR"], ["-D", "FOO,BAZ=3"], ["+D", "QUX,FOO"], ["-D", "X=1/0"], ["+D", "FOO"], ["-D", ""], ["+D", ","],
             # include path entries given and taken away again
             ["-i", "/w/inc:/w"], ["+i", "/w/inc"], ["+i", "/nowhere"], ["+i", "/sim/inc:/w"], ["-i", ""], ["+i", ""]]


# every report the assembler can write about a program, at once (listing with usage, cross reference and section lists,
# debug info, macro output files): the statement's effect on the bookkeeping behind them is exercised too
ALL_REPORTS = ["-L", "-u", "-C", "-s", "-I", "-g", "MAP", "-P", "-M", "-x", "-x"]


_MACDEF = re.compile(rb"^([A-Za-z_.$@][\w.$@]*):?[ \t]+macro\b", re.I | re.M)


def described_work(src):
    """Lines the source asks for once its REPT nests are written out (constant counts only; IRP lists count their
    arguments).  A lower bound of the work the input describes."""
    stack = []
    total = 0
    for ln in src.lower().split(b"\n"):
        f = ln.replace(b",", b" , ").split()
        ops = f[:2]
        if b"endm" in ops:
            if stack:
                stack.pop()
            continue
        mult = 1
        for m in stack:
            mult *= m
        total += mult
        if b"rept" in ops:
            i = f.index(b"rept")
            try:
                stack.append(max(1, int(f[i + 1])) if len(f) > i + 1 else 1)
            except ValueError:
                stack.append(1)
        elif any(o in (b"irp", b"irpn") for o in ops):
            stack.append(max(1, f.count(b",")))
        elif any(o in (b"irpc", b"macro", b"while") for o in ops):
            stack.append(1)
    return total


def may_not_terminate(src):
    """The property claims termination only for inputs without WHILE and without self-recursive macros: a source that
    has WHILE, or a macro whose body invokes a macro defined in the same text, is outside that claim."""
    low = src.lower()
    if b"while" in low or b"mompass" in low:
        return True  # (a value that depends on the pass number never settles: outside the termination claim as well)
    names = {m.group(1).lower() for m in _MACDEF.finditer(src)}
    if not names:
        return False
    inside = 0
    for ln in low.split(b"\n"):
        f = ln.split()
        if len(f) >= 2 and f[1] == b"macro":
            inside += 1
            # parameter names: an instruction taken from a parameter can be any macro (indirect recursion)
            for prm in b" ".join(f[2:]).replace(b",", b" ").split():
                names.add(prm.split(b"=")[0].strip(b"{}"))
            continue
        if f and f[0] == b"endm" or (len(f) >= 2 and f[1] == b"endm"):
            inside = max(0, inside - 1)
            continue
        if inside and any(tok.rstrip(b":") in names for tok in f[:2]):
            return True
    return False


def swarm_opts(rng, p=0.12):
    out = []
    for o in OPT_SWARM:
        if rng.chance(p):
            out += o
    return out


# ------------------------------------------------------------------ plan
def plan(tier, seed):
    thorough = tier == "thorough"
    cases = []
    sim = pool.get_sim()
    refs = ref_files(sim)
    # E1-E3 over reference files
    for name in sorted(refs):
        b = refs[name]
        n = len(b)
        step = 1
        cases.append({"gen": "trunc", "ref": name, "lo": 0, "hi": n, "step": step, "full": thorough})
        for lo in range(0, n, 40):
            cases.append({"gen": "flip", "ref": name, "per_payload": 3 if thorough else 1, "full": thorough,
                          "seed": mix(seed, "flip", name, lo), "lo": lo, "hi": min(n, lo + 40)})
        cfp = codefile.parse(b, strict=False)
        nrec = len(cfp.records)
        for ri in ([-2] if cfp.reloc else []) + list(range(-1, nrec)):
            cases.append({"gen": "field", "ref": name, "full": thorough, "rec": ri})
    # split E1 cases into chunks for parallelism
    out = []
    for c in cases:
        if c["gen"] == "trunc":
            lo = 0
            chunk = 24 if thorough else 48
            while lo < c["hi"]:
                d = dict(c)
                d["lo"], d["hi"] = lo, min(c["hi"], lo + chunk)
                out.append(d)
                lo += chunk
        else:
            out.append(c)
    cases = out
    # E4 writer crash points
    for name in sorted(REF_PROGS):
        cases.append({"gen": "wcrash", "prog": name, "full": thorough})
    cases.append({"gen": "wcrash", "prog": "@big64k", "full": False, "sample": 40 if thorough else 12, "seed": mix(seed, "w64")})
    # crash points of the utilities that write code files themselves (pbind, alink): torn outputs go to the readers
    for name in sorted(REF_PROGS):
        cases.append({"gen": "wcrash2", "ref": name})
    # big 64 KiB split file: sampled truncations / flips only
    cases.append({"gen": "bigfile", "seed": mix(seed, "big"), "n": 200 if thorough else 40})
    # E5 source EOF at line boundaries
    tests = corpus.tests()
    for t in tests:
        nl = t.src.count(b"\n")
        cap = 2500 if thorough else 24
        if nl + 1 <= cap:
            lines = list(range(0, nl + 1))
        else:  # seeded sample of line boundaries (only t_m16 exceeds the thorough cap)
            lines = sorted(Rng(mix(seed, "eof", t.name)).sample(range(0, nl + 1), cap))
        # cost-bounded chunks: a cut at line n assembles about n/nl of the source
        budget = 250000
        cur, cost = [], 0
        for n in lines:
            c = 2000 + len(t.src) * n // max(nl, 1)
            if cur and cost + c > budget:
                cases.append({"gen": "eof", "test": t.name, "lines": cur})
                cur, cost = [], 0
            cur.append(n)
            cost += c
        if cur:
            cases.append({"gen": "eof", "test": t.name, "lines": cur})
    # E6 byte-level mutation of golden sources
    n6 = 20000 if thorough else 1500
    for i in range(0, n6, 25):
        cases.append({"gen": "mutsrc", "seed": mix(seed, "mut", i), "n": 25})
    nop_ = 150000 if thorough else 3000
    for i in range(0, nop_, 50):
        cases.append({"gen": "opmut", "seed": mix(seed, "opmut", i), "n": 50})
    # E7 vocabulary
    if thorough:
        total = len(CPUS) * len(PSEUDO) * len(ARGS)
        for i in range(0, total, 300):
            cases.append({"gen": "vocab1", "lo": i, "hi": min(total, i + 300)})
    else:
        for i in range(0, 9000, 150):
            cases.append({"gen": "vocab1s", "seed": mix(seed, "v1", i), "n": 150})
    n7 = 60000 if thorough else 3000
    for i in range(0, n7, 100):
        cases.append({"gen": "vocabn", "seed": mix(seed, "vn", i), "n": 100})
    # construct interplay: opener x inner x (closed | not closed) x stray statement after it, on two CPUs
    total = len(OPENERS) * len(INNERS) * len(INNERS)
    for i in range(0, total, 400):
        cases.append({"gen": "nest", "lo": i, "hi": min(total, i + 400)})
    # two levels: outer construct / inner construct / two statements inside / closers; complete in the thorough tier
    total2 = len(OPENERS) * len(OPENERS) * len(INNERS) * len(INNERS)
    if thorough:
        for i in range(0, total2, 500):
            cases.append({"gen": "nest2", "lo": i, "hi": min(total2, i + 500)})
    else:
        for i in range(0, 6000, 300):
            cases.append({"gen": "nest2", "sample": 300, "seed": mix(seed, "nest2", i)})
    total = len(MAC_DECLS) * len(MAC_BODIES) * len(MAC_CALLS)
    for i in range(0, total, 300):
        cases.append({"gen": "maccall", "lo": i, "hi": min(total, i + 300)})
    # E8 raw bytes
    n8 = 20000 if thorough else 1000
    for i in range(0, n8, 100):
        cases.append({"gen": "raw", "seed": mix(seed, "raw", i), "n": 100})
    # hex / bin inputs for dasl and option fuzz for the tools
    n9 = 6000 if thorough else 1500
    for i in range(0, n9, 50):
        cases.append({"gen": "dasl", "seed": mix(seed, "dasl", i), "n": 50})
    # E9 option swarm for the utilities over (mostly valid) reference files
    n10 = 60000 if thorough else 4000
    for i in range(0, n10, 200):
        cases.append({"gen": "toolopt", "seed": mix(seed, "topt", i), "n": 200})
    # E11 symbol faults: an identifier in an operand field of a golden source becomes undefined / self-referential /
    # another identifier of the same file; every position in the thorough tier, a seeded sample otherwise
    for t in tests:
        if len(t.src) > 60000:
            continue
        npos = len(symfault_positions(t))
        if not npos:
            continue
        if thorough:
            for lo in range(0, npos, 250):
                cases.append({"gen": "symfault", "test": t.name, "lo": lo, "hi": min(npos, lo + 250)})
        else:
            cases.append({"gen": "symfault", "test": t.name, "sample": 20, "seed": mix(seed, "symf", t.name)})
    # E13 symbol stack x kinds of value
    cases.append({"gen": "symstack"})
    # E15 command lines of many arguments, option lists that accumulate
    cases.append({"gen": "manyargs"})
    # E14 section-local declarations
    for k in range(12 if thorough else 2):
        cases.append({"gen": "secdecl", "n": 250 if thorough else 150, "seed": mix(seed, "secdecl", k)})
    # E12 one line of critical length per program, in eight contexts
    for sh in LL_SHAPES:
        cases.append({"gen": "longline", "shape": sh})
    # E10 statements that read further files: BINCLUDE offset x length x file size, INCLUDE of odd files
    nfr = len(fileread_cases())
    for lo in range(0, nfr, 150):
        cases.append({"gen": "fileread", "lo": lo, "hi": min(nfr, lo + 150)})
    # ... and every pair of option settings of p2hex / p2bin over reference files of each granularity
    for prog in ("p2hex", "p2bin"):
        npairs = len(tool_pairs(prog))
        for ref in PAIR_REFS:
            if thorough:
                for lo in range(0, npairs, 400):
                    cases.append({"gen": "toolpair", "prog": prog, "ref": ref, "lo": lo, "hi": min(npairs, lo + 400)})
            else:
                cases.append({"gen": "toolpair", "prog": prog, "ref": ref, "sample": 500, "seed": mix(seed, "tpair", prog, ref)})
    return cases


# ------------------------------------------------------------------ running
def explicit(prog, sc, origin):
    return {"kind": "explicit", "prog": prog, "scenario": _json_sc(sc), "origin": origin}


def _json_sc(sc):
    from ..sim import scenario_to_json
    return scenario_to_json(sc)


class Acc:
    def __init__(self):
        self.violations = []
        self.stats = {}
        self.faults = {}
        self.probes = {}
        self.runs = 0
        self.sim_us = 0
        self.keys = []
        self.seen_cls = set()
        self.hangs = 0
        self.sample = None
        self.digests = []
        self.shapes = set()
        self.obs = []

    def bump(self, d, k, n=1):
        d[k] = d.get(k, 0) + n


def sc_key(prog, sc):
    h = hashlib.blake2b(digest_size=8)
    h.update(prog.encode())
    for a in sc["argv"]:
        h.update(a.encode("latin1") + b"\0")
    for k in sorted(sc.get("disk", {})):
        v = sc["disk"][k]
        h.update(k.encode() + b"\0" + (v if isinstance(v, bytes) else v.encode("latin1")) + b"\1")
    for f in sc.get("faults", []):
        h.update(repr(sorted(f.items())).encode())
    return int.from_bytes(h.digest(), "little")


# label without colon: a definition, not an address
_DEFLINE = re.compile(rb"^([A-Za-z_][\w.]*)[ \t]+([A-Za-z][\w.]*)[ \t]+(.*)$")


def selfref_definitions(src):
    """(line indexes, statement names) of definitions whose operand mentions the symbol being defined (x BIT x+1)."""
    idx, ops = [], set()
    for i, ln in enumerate(src.split(b"\n")):
        m = _DEFLINE.match(ln.split(b";")[0])
        if m and m.group(2).upper() not in (b"EQU", b"SET", b"EVAL", b"MACRO", b"FUNCTION") \
                and re.search(rb"(?<![\w.])" + re.escape(m.group(1)) + rb"(?![\w.])", m.group(3), re.I):
            idx.append(i)
            ops.add(m.group(2).upper().decode("latin1"))
    return idx, ops


def refine_pass_hang(sim, prog, sc, cls):
    """A run that exhausts the line budget through passes: if the source holds self-referential definitions and the
    same source without exactly those lines ends within the budget, the class names them (the call site of the
    finding); otherwise the class stays as it is."""
    if prog != "asl" or cls != "asl/hang/line-budget":
        return cls
    main = [k for k in sc.get("disk", {}) if k.endswith(".asm")]
    if len(main) != 1:
        return cls
    src = sc["disk"][main[0]]
    src = src if isinstance(src, bytes) else src.encode("latin1")
    idx, ops = selfref_definitions(src)
    if not idx:
        return cls
    lines = src.split(b"\n")
    for i in idx:
        lines[i] = b""
    sc2 = dict(sc)
    sc2["disk"] = dict(sc["disk"])
    sc2["disk"][main[0]] = b"\n".join(lines)
    r2, san2 = sim.run(prog, sc2, "asan")
    c2 = oracle.classify(prog, r2, san2)
    if c2 and "/hang/" in c2:
        return cls
    return cls + "/self-referential-definition/" + "+".join(sorted(ops))


def run_one(sim, acc, prog, sc, origin, kind, nontrivial_off=None):
    r, san = sim.run(prog, sc, "asan")
    acc.runs += 1
    # a run ended by the CPU backstop stops at a point that depends on the machine's speed: its event log is no part of
    # the reproducible record (verdicts never rest on it either, see below)
    acc.shapes.add(CPU_BACKSTOP_SHAPE if (r.kind == 1 and r.code == 24) else r.hash)
    fb = sc.get("disk", {}).get("/w/f.p")
    acc.keys.append((sc_key(prog, sc), 1 if (nontrivial_off is None or r.bytes_read >= min(nontrivial_off, len(fb or b""))) else 0))
    acc.sim_us += r.sim_us
    acc.bump(acc.stats, "%s:%s" % (prog, r.outcome if r.kind != 1 else "signal"))
    acc.bump(acc.faults, kind)
    cls = oracle.classify(prog, r, san)
    if cls and cls.endswith("/hang/cpu-limit"):
        # the CPU backstop is the only budget that is not a deterministic step count: a verdict never
        # rests on it unless an immediate re-run of the same scenario hits it again
        r2, san2 = sim.run(prog, sc, "asan")
        acc.runs += 1
        if oracle.classify(prog, r2, san2) != cls:
            acc.bump(acc.probes, "cpu_limit_not_reproduced")
            r, san, cls = r2, san2, oracle.classify(prog, r2, san2)
    if cls == "asl/hang/cpu-limit":
        # time proportional to the work described: a source whose written-out REPT nests exceed the line budget runs that
        # long legitimately; with per-line bookkeeping that grows (-g) the CPU backstop can come before the line budget
        work = sum(described_work(v if isinstance(v, bytes) else v.encode("latin1")) for k, v in sc.get("disk", {}).items() if k.endswith(".asm"))
        if work >= LINE_BUDGET:
            acc.bump(acc.probes, "cpu_limit_within_described_work")
            cls = None
    if cls == "asl/hang/line-budget":
        cls = refine_pass_hang(sim, prog, sc, cls)
    if cls is None and prog == "asl" and r.kind == 0:
        # output proportional to the input: a source without any repetition construct cannot legitimately make the assembler
        # write more than a few KiB per input byte.  (An endless report is otherwise only stopped by the simulated disk
        # filling up, which ends the run with the documented I/O-error status and would pass for a normal exit.)
        inp = sum(len(v) for v in sc.get("disk", {}).values())
        if r.bytes_written > (1 << 20) + 4096 * inp:
            txt = b"\n".join(v if isinstance(v, bytes) else v.encode("latin1") for v in sc.get("disk", {}).values()).lower()
            if not re.search(rb"rept|irp|while|macro|dup|\[\d|include", txt):
                cls = "asl/hang/output-budget"
    if cls and cls.endswith("/hang/cpu-limit") and any(v["class"] == cls for v in acc.violations):
        # an earlier input of this chunk already stands as a violation of this class (it was not exempted by its caller)
        raise RepeatedHangs()
    if cls and cls not in acc.seen_cls:
        acc.seen_cls.add(cls)
        acc.violations.append({"class": cls, "detail": "%s %s -> %s" % (prog, " ".join(sc["argv"][:8]), r.outcome),
                               "case": explicit(prog, sc, origin), "digest": r.digest()})
    return r, san, cls


def mutated_tools(sim, acc, fbytes, origin, kind, full, sel, off):
    for prog, argv in tool_matrix(full, sel):
        sc = sc_tool(prog, argv, fbytes)
        r, san, cls = run_one(sim, acc, prog, sc, origin, kind, off)
        if r.bytes_read >= min(off, len(fbytes)):
            acc.bump(acc.probes, "consumed_faulted_offset")
        # bad magic must be rejected with the format-error status
        if len(fbytes) >= 2 and fbytes[:2] != b"\x89\x14" and prog in ("plist", "pbind", "p2bin", "p2hex", "alink") \
                and r.kind == 0 and r.code != 3 and not cls:
            c2 = "%s/bad-magic-accepted/exit%d" % (prog, r.code)
            if c2 not in acc.seen_cls:
                acc.seen_cls.add(c2)
                acc.violations.append({"class": c2, "detail": "magic %r -> %s" % (fbytes[:2], r.outcome),
                                       "case": explicit(prog, sc, origin), "digest": r.digest()})


def payload_mask(b):
    """True for bytes that are record payload (by the independent reader), False for structure."""
    mask = [False] * len(b)
    try:
        cf = codefile.parse(b, strict=False)
    except codefile.FormatError:
        return mask
    for r in cf.records:
        for i in range(r.data_off, r.data_off + r.length):
            mask[i] = True
    if cf.creator is not None:
        for i in range(len(b) - len(cf.creator), len(b)):
            mask[i] = True
    return mask


def field_edits(b, full=True):
    """(description, mutated bytes) for every record field edit of E3."""
    out = []
    for magic in (b"\x00\x00", b"\x14\x89", b"\x89\x15", b"\xff\xff"):
        out.append(("magic=%s" % magic.hex(), magic + b[2:]))
    try:
        cf = codefile.parse(b, strict=False)
    except codefile.FormatError:
        return out
    for ri, r in enumerate(cf.records):
        o = r.off
        for h in (list(range(0, 256)) if full else [0, 1, 0x51, 0x7F, 0x80, 0x81, 0x82, 0x83, 0x84, 0x85, 0x86, 0xFF]):
            out.append(("rec%d.hdr=%d" % (ri, h), b[:o] + bytes([h]) + b[o + 1:]))
        if r.hdr >= 0x81:
            for s in (0, 1, 2, 3, 4, 5, 6, 7, 8, 9, 10, 255):
                out.append(("rec%d.seg=%d" % (ri, s), b[:o + 2] + bytes([s]) + b[o + 3:]))
            for g in (0, 1, 2, 3, 4, 8, 255):
                out.append(("rec%d.gran=%d" % (ri, g), b[:o + 3] + bytes([g]) + b[o + 4:]))
            for c in (0, 1, 0x7F, 0x80, 0xFF):
                out.append(("rec%d.cpu=%d" % (ri, c), b[:o + 1] + bytes([c]) + b[o + 2:]))
        so = r.data_off - 6
        for st in (0, 0x7FFFFFFF, 0xFFFFFFFF, 0xFFFFFFF0, 0x80000000):
            out.append(("rec%d.start=%x" % (ri, st), b[:so] + struct.pack("<I", st) + b[so + 4:]))
        for ln in sorted({0, 1, max(0, r.length - 1), r.length + 1, 0xFFFF, 0x8000}):
            out.append(("rec%d.len=%d" % (ri, ln), b[:so + 4] + struct.pack("<H", ln) + b[so + 6:]))
    # relocation-info records: the three 32-bit counts, including totals that wrap to a negative skip length
    # (-13 lands on the record's own header, -1 inside it) and ones just inside / outside what a 32-bit int holds
    for qi, (roff, cnt, ecnt, _tab) in enumerate(cf.reloc):
        for fi, name in enumerate(("relocs", "exports", "strlen")):
            fo = roff + 1 + 4 * fi
            for v in (0, 1, 2, 0x0FFFFFFF, 0x10000000, 0x07FFFFFF, 0x08000000, 0x7FFFFFFF, 0x80000000, 0xFFFFFFFF,
                      0xFFFFFFF3, 0xFFFFFFF0):
                out.append(("rel%d.%s=%x" % (qi, name, v), b[:fo] + struct.pack("<I", v) + b[fo + 4:]))
        # string length chosen so that 16*relocs + 16*exports + strlen is exactly -13, -12, -1 as a 32-bit int
        for tot in (-13, -12, -1, -14):
            v = (tot - 16 * cnt - 16 * ecnt) & 0xFFFFFFFF
            out.append(("rel%d.total=%d" % (qi, tot), b[:roff + 9] + struct.pack("<I", v) + b[roff + 13:]))
        # the entries themselves: patch addresses around both ends of the record they belong to (the record in front of the
        # table), name offsets around the string table, relocation types, export flags and values
        prev = [r for r in cf.records if r.off < roff]
        r0 = prev[-1] if prev else None
        tab0 = roff + 13
        slen = len(_tab) - 16 * cnt - 16 * ecnt
        for j in range(cnt):
            eo = tab0 + 16 * j
            if r0 is not None:
                for d in (-1, -2, -3, -4, -5, -8, -9, 0, r0.length - 1, r0.length - 2, r0.length - 3, r0.length, r0.length + 1,
                          1 << 32, (1 << 63), (1 << 64) - 1):
                    a = (r0.start + d) & 0xFFFFFFFFFFFFFFFF
                    out.append(("rel%d.entry%d.addr=start%+d" % (qi, j, d), b[:eo] + struct.pack("<Q", a) + b[eo + 8:]))
            for v in (0, 1, slen - 1, slen, slen + 1, 0x7FFFFFFF, 0xFFFFFFFF):
                out.append(("rel%d.entry%d.name=%d" % (qi, j, v), b[:eo + 8] + struct.pack("<I", v & 0xFFFFFFFF) + b[eo + 12:]))
            for v in list(range(0, 20)) + [0x20, 0x40, 0x80, 0xFF, 0x100, 0xFFFF, 0xFFFFFFFF]:
                out.append(("rel%d.entry%d.type=%x" % (qi, j, v), b[:eo + 12] + struct.pack("<I", v) + b[eo + 16:]))
        for j in range(ecnt):
            eo = tab0 + 16 * cnt + 16 * j
            for v in (0, 1, slen - 1, slen, slen + 1, 0xFFFFFFFF):
                out.append(("rel%d.export%d.name=%d" % (qi, j, v), b[:eo] + struct.pack("<I", v & 0xFFFFFFFF) + b[eo + 4:]))
            for v in (0, 1, 2, 3, 0xFF, 0xFFFFFFFF):
                out.append(("rel%d.export%d.flags=%x" % (qi, j, v), b[:eo + 4] + struct.pack("<I", v) + b[eo + 8:]))
            for v in (0, 1, 0xFFFF, 1 << 32, (1 << 64) - 1):
                out.append(("rel%d.export%d.value=%x" % (qi, j, v), b[:eo + 8] + struct.pack("<Q", v) + b[eo + 16:]))
    return out


class RepeatedHangs(Exception):
    pass


def run_case(sim, case):
    acc = Acc()
    try:
        return _run_case(sim, case, acc)
    except RepeatedHangs:
        # the violation is on record; the remaining inputs of this chunk would each burn the CPU backstop again
        acc.bump(acc.probes, "chunk_cut_short_after_repeated_hangs")
        return {"violations": acc.violations, "runs": acc.runs, "sim_us": acc.sim_us, "stats": acc.stats,
                "faults": acc.faults, "probes": acc.probes, "keys": acc.keys, "shapes": sorted(acc.shapes),
                "sample": acc.sample, "digest": None, "observations": acc.obs, "distinct": acc.runs}


def _run_case(sim, case, acc):
    if case.get("kind") == "explicit":
        from ..sim import scenario_from_json
        sc = scenario_from_json(case["scenario"])
        r, san, cls = run_one(sim, acc, case["prog"], sc, case.get("origin", ""), "replay")
        vs = [{"class": v["class"], "detail": v["detail"]} for v in acc.violations]
        fb = sc.get("disk", {}).get("/w/f.p")
        if fb is not None and len(fb) >= 2 and fb[:2] != b"\x89\x14" and r.kind == 0 and r.code != 3 and not cls \
                and case["prog"] in ("plist", "pbind", "p2bin", "p2hex", "alink"):
            vs.append({"class": "%s/bad-magic-accepted/exit%d" % (case["prog"], r.code), "detail": r.outcome})
        return {"violations": vs, "case": case, "digest": r.digest(), "key": chash(case), "nontrivial": True,
                "runs": 1, "sim_us": r.sim_us}
    g = case["gen"]
    refs = ref_files(sim) if g in ("trunc", "flip", "field") else None
    if g == "trunc":
        b = refs[case["ref"]]
        for n in range(case["lo"], case["hi"]):
            mutated_tools(sim, acc, b[:n], "E1 %s[:%d]" % (case["ref"], n), "truncate", case["full"], n, n)
        acc.sample = {"space": "E1", "ref": case["ref"], "prefix_lengths": [case["lo"], case["hi"]]}
    elif g == "flip":
        b = refs[case["ref"]]
        mask = payload_mask(b)
        rng = Rng(case["seed"])
        k = 0
        for i in range(case["lo"], case["hi"]):
            bits = range(8) if not mask[i] else rng.sample(range(8), case["per_payload"])
            for bit in bits:
                m = b[:i] + bytes([b[i] ^ (1 << bit)]) + b[i + 1:]
                k += 1
                mutated_tools(sim, acc, m, "E2 %s byte %d bit %d" % (case["ref"], i, bit), "bitflip", False, k, i)
        acc.sample = {"space": "E2", "ref": case["ref"], "files": k}
    elif g == "field":
        b = refs[case["ref"]]
        k = 0
        want = "rel" if case["rec"] == -2 else "magic" if case["rec"] < 0 else "rec%d." % case["rec"]
        for desc, m in field_edits(b, case["full"]):
            if not desc.startswith(want):
                continue
            k += 1
            mutated_tools(sim, acc, m, "E3 %s %s" % (case["ref"], desc), "field-edit", False, k, 0)
        acc.sample = {"space": "E3", "ref": case["ref"], "edits": k}
    elif g == "wcrash":
        src = BIG64K if case["prog"] == "@big64k" else REF_PROGS[case["prog"]]
        base = sc_asl(src, want_events=1)
        r0, san = sim.run("asl", base, "asan")
        acc.runs += 1
        if r0.outcome != "exit:0":
            return {"machinery_error": "wcrash reference %s: %s" % (case["prog"], r0.outcome)}
        evs = r0.ev()
        code_fi = None
        for e in evs:
            if e[1] == EV_WRITE and e[4] == 0 and e[5] == 2:
                code_fi = e[3]
                break
        if code_fi is None:
            return {"machinery_error": "wcrash: code file writes not found"}
        wlens = [e[5] for e in evs if e[1] == EV_WRITE and e[3] == code_fi]
        nseeks = len([e for e in evs if e[1] == EV_SEEK and e[3] == code_fi])
        points = []
        for k, ln in enumerate(wlens, 1):
            points.append((EV_WRITE, k, ACT_CRASH, 0))
            for t in sorted({1, ln // 2, ln - 1}):
                if 0 < t < ln:
                    points.append((EV_WRITE, k, ACT_TORN, t))
        for k in range(1, nseeks + 1):
            points.append((EV_SEEK, k, ACT_CRASH, 0))
        if case.get("sample"):
            rng = Rng(case["seed"])
            points = rng.sample(points, case["sample"])
        seen_files = set()
        for op, k, act, arg in points:
            sc = dict(base)
            sc["want_events"] = 0
            sc["faults"] = [{"op": op, "cls": CLS_CODE, "action": act, "nth": k, "arg": arg}]
            r, san = sim.run("asl", sc, "asan")
            acc.runs += 1
            acc.bump(acc.faults, "writer-crash" if act == ACT_CRASH else "torn-write")
            if r.kind != 2:
                acc.bump(acc.probes, "crash_point_not_reached")
                continue
            f = r.get("/w/a.p")
            if f is None or f in seen_files:
                continue
            seen_files.add(f)
            try:
                codefile.parse(f)
            except codefile.FormatError as e:
                acc.bump(acc.probes, "torn_file_malformed")
                if "length" in str(e):
                    acc.bump(acc.probes, "torn_file_length_not_backpatched")
            mutated_tools(sim, acc, f, "E4 %s crash op=%d nth=%d act=%d arg=%d" % (case["prog"], op, k, act, arg),
                          "torn-input", case["full"], k, len(f))
        acc.sample = {"space": "E4", "prog": case["prog"], "crash_points": len(points), "distinct_surviving_files": len(seen_files)}
    elif g == "wcrash2":
        b = ref_files(sim)[case["ref"]]
        seen_files = set()
        for prog, argv in (("pbind", ["f.p", "out.p"]), ("alink", ["f.p", "out.p"]), ("pbind", ["f.p", "f.p", "out.p"])):
            base = sc_tool(prog, argv, b)
            base["want_events"] = 1
            r0, san = sim.run(prog, base, "asan")
            acc.runs += 1
            idx = {pth: i for i, pth in r0.index.items()}.get("/w/out.p")
            if idx is None:
                continue
            wlens = [e[5] for e in r0.ev() if e[1] == EV_WRITE and e[3] == idx]
            nseeks = len([e for e in r0.ev() if e[1] == EV_SEEK and e[3] == idx])
            points = [(EV_WRITE, k, ACT_CRASH, 0) for k in range(1, len(wlens) + 1)]
            points += [(EV_WRITE, k, ACT_TORN, max(1, ln // 2)) for k, ln in enumerate(wlens, 1) if ln > 1]
            points += [(EV_SEEK, k, ACT_CRASH, 0) for k in range(1, nseeks + 1)]
            for op, k, act, arg in points:
                sc = dict(base)
                sc["want_events"] = 0
                sc["faults"] = [{"op": op, "cls": CLS_CODE, "action": act, "nth": k, "arg": arg, "sub": "out.p"}]
                r, san = sim.run(prog, sc, "asan")
                acc.runs += 1
                acc.bump(acc.faults, "writer-crash" if act == ACT_CRASH else "torn-write")
                f = r.get("/w/out.p")
                if r.kind != 2 or f is None or f in seen_files:
                    continue
                seen_files.add(f)
                mutated_tools(sim, acc, f, "E4 %s of %s crash op=%d nth=%d act=%d" % (prog, case["ref"], op, k, act), "torn-input", False, k, len(f))
        acc.sample = {"space": "E4 (utility writers)", "ref": case["ref"], "distinct_surviving_files": len(seen_files)}
    elif g == "bigfile":
        r0, san = sim.run("asl", sc_asl(BIG64K), "asan")
        acc.runs += 1
        b = r0.get("/w/a.p")
        if r0.outcome != "exit:0" or b is None:
            return {"machinery_error": "big64k reference: %s %r" % (r0.outcome, r0.stderr[:200])}
        cf = codefile.parse(b)
        if len(cf.records) >= 2:
            acc.bump(acc.probes, "record_split_at_64k")
        rng = Rng(case["seed"])
        hot = [0, 1, 2, 3, 11, 12, 13]
        for r in cf.records:
            hot += [r.off + d for d in range(0, 10)] + [r.data_off + r.length - 1, r.data_off + r.length]
        for i in range(case["n"]):
            if rng.chance(0.5):
                n = rng.choice(hot) if rng.chance(0.7) else rng.below(len(b))
                mutated_tools(sim, acc, b[:n], "E1 big64k[:%d]" % n, "truncate", False, i, n)
            else:
                o = rng.choice(hot) if rng.chance(0.7) else rng.below(len(b))
                o = min(o, len(b) - 1)
                m = b[:o] + bytes([b[o] ^ (1 << rng.below(8))]) + b[o + 1:]
                mutated_tools(sim, acc, m, "E2 big64k byte %d" % o, "bitflip", False, i, o)
        acc.sample = {"space": "E1/E2 on 64KiB-split file", "n": case["n"], "records": len(cf.records)}
    elif g == "eof":
        t = corpus.by_name(case["test"])
        lines = t.src.split(b"\n")
        for n in case["lines"]:
            src = b"\n".join(lines[:n]) + (b"\n" if n else b"")
            sc = dict(argv=list(t.flags) + ["-q", "-i", "/sim/inc", "/w/cut.asm", "-o", "/w/cut.p", "-shareout", "/w/cut.h"],
                      cwd="/sim/tests/" + t.name, disk={"/w/cut.asm": src},
                      env={"LANG": "C", "ASL_VERIF_MAX_LINES": "3000000" if len(t.src) > 200000 else "600000"}, cpu=40)
            r, san, cls = run_one(sim, acc, "asl", sc, "E5 %s cut at line %d" % (t.name, n), "source-eof")
            if cls and "hang" in cls and may_not_terminate(src):
                acc.violations = [v for v in acc.violations if v["class"] != cls]
                acc.seen_cls.discard(cls)
                acc.bump(acc.probes, "hang_ignored_while_or_recursive_macro")
        acc.sample = {"space": "E5", "test": case["test"], "cut_lines": case["lines"][:5]}
    elif g == "mutsrc":
        rng = Rng(case["seed"])
        tests = corpus.tests()
        for i in range(case["n"]):
            t = rng.choice(tests)
            s = bytearray(t.src)
            if len(s) > 60000:
                continue
            desc = []
            has_loop = False  # decided on the mutated text below
            for _ in range(rng.randint(1, 3)):
                m = rng.below(4)
                if m == 0 and len(s) > 1:
                    n = rng.below(len(s))
                    del s[n:]
                    desc.append("trunc@%d" % n)
                elif m == 1 and s:
                    o = rng.below(len(s))
                    s[o] ^= 1 << rng.below(8)
                    desc.append("flip@%d" % o)
                elif m == 2 and s:
                    o = rng.below(len(s))
                    s[o:o + 1] = bytes([rng.choice([0, 9, 10, 13, 34, 39, 40, 41, 44, 91, 92, 93, 123, 125, 255])])
                    desc.append("set@%d" % o)
                elif s:
                    a = rng.below(len(s))
                    b_ = min(len(s), a + rng.randint(1, 200))
                    o = rng.below(len(s))
                    s[o:o] = s[a:b_]
                    desc.append("dup@%d" % o)
            sc = dict(argv=list(t.flags) + ["-q", "-i", "/sim/inc"] + swarm_opts(rng, 0.05)
                      + ["/w/mut.asm", "-o", "/w/mut.p", "-shareout", "/w/mut.h"],
                      cwd="/sim/tests/" + t.name, disk={"/w/mut.asm": bytes(s)},
                      env={"LANG": "C", "ASL_VERIF_MAX_LINES": "400000"}, max_disk=32 << 20, cpu=30)
            r, san, cls = run_one(sim, acc, "asl", sc, "E6 %s %s" % (t.name, ",".join(desc)), "source-mutation")
            has_loop = may_not_terminate(bytes(s))
            if cls and "hang" in cls and has_loop:
                # termination is not claimed for sources with WHILE: drop hang verdicts there
                acc.violations = [v for v in acc.violations if v["class"] != cls]
                acc.seen_cls.discard(cls)
                acc.bump(acc.probes, "hang_ignored_while_or_recursive_macro")
        acc.sample = {"space": "E6", "n": case["n"]}
    elif g == "opmut":
        rng = Rng(case["seed"])
        tests = [t for t in corpus.tests() if len(t.src) <= 60000]
        for _ in range(case["n"]):
            t = rng.choice(tests)
            lines = t.src.split(b"\n")
            cand = [i for i, ln in enumerate(lines) if ln[:1] in (b" ", b"\t") and len(ln.split(None, 1)) == 2 and not ln.lstrip().startswith(b";")]
            if not cand:
                continue
            i = rng.choice(cand)
            ind = lines[i][:len(lines[i]) - len(lines[i].lstrip())]
            mnem, rest = lines[i].split(None, 1)
            rest = rest.split(b";")[0].rstrip()
            ops = rest.split(b",")
            k = rng.below(len(ops) + 1)
            sub = rng.choice(OPERAND_POOL).encode()
            if k == len(ops):
                ops.append(sub)
            else:
                ops[k] = sub
            lines[i] = ind + mnem + b"\t" + b",".join(ops)
            src = b"\n".join(lines)
            sc = dict(argv=list(t.flags) + ["-q", "-i", "/sim/inc", "/w/mut.asm", "-o", "/w/mut.p", "-shareout", "/w/mut.h"],
                      cwd="/sim/tests/" + t.name, disk={"/w/mut.asm": src},
                      env={"LANG": "C", "ASL_VERIF_MAX_LINES": "400000"}, max_disk=32 << 20, cpu=30)
            r, san, cls = run_one(sim, acc, "asl", sc, "operand fault %s line %d: %s" % (t.name, i + 1, lines[i].decode("latin1").strip()), "operand-fault")
            if cls and "hang" in cls and may_not_terminate(src):
                acc.violations = [v for v in acc.violations if v["class"] != cls]
                acc.seen_cls.discard(cls)
                acc.bump(acc.probes, "hang_ignored_while_or_recursive_macro")
        acc.sample = {"space": "operand-level faults in golden sources", "example": lines[i].decode("latin1")}
    elif g in ("vocab1", "vocab1s"):
        def one(ci, pi, ai, labelled, reports):
            src = "\tcpu %s\n%s\t%s\t%s\n" % (CPUS[ci], "lab" if labelled else "", PSEUDO[pi], tame(PSEUDO[pi], ARGS[ai]))
            if labelled:
                # a reference to a symbol defined further down: the statement above is assembled in a second pass too
                src += "xq2p\tset fwq2p\nfwq2p\tequ 5\n"
            r, san, cls = run_one(sim, acc, "asl", sc_asl(src, ALL_REPORTS if reports else []),
                                  "E7 single %s %s %r%s" % (CPUS[ci], PSEUDO[pi], ARGS[ai], " with every report" if reports else ""), "vocabulary")
            if cls and "hang" in cls and may_not_terminate(src.encode("latin1")):
                acc.violations = [v for v in acc.violations if v["class"] != cls]
                acc.seen_cls.discard(cls)
                acc.bump(acc.probes, "hang_ignored_while_or_recursive_macro")
        if g == "vocab1":
            for idx in range(case["lo"], case["hi"]):
                ai = idx % len(ARGS)
                pi = (idx // len(ARGS)) % len(PSEUDO)
                ci = idx // (len(ARGS) * len(PSEUDO))
                one(ci, pi, ai, idx & 1, False)
                if ci == 0:
                    one(ci, pi, ai, 1 - (idx & 1), False)  # with and without a label (and the two-pass tail) on one target
                if ci in (0, 1):  # the report writers are target independent: two targets suffice
                    one(ci, pi, ai, idx & 1, True)
        else:
            rng = Rng(case["seed"])
            for _ in range(case["n"]):
                one(rng.below(len(CPUS)), rng.below(len(PSEUDO)), rng.below(len(ARGS)), rng.below(2), rng.chance(0.4))
        acc.sample = {"space": "E7 singles", "example": "\tcpu z80\nlab\tENUM\t]\n"}
    elif g == "vocabn":
        rng = Rng(case["seed"])
        last = None
        for _ in range(case["n"]):
            src = gen_vocab_program(rng, rng.randint(2, 6))
            last = src
            run_one(sim, acc, "asl", sc_asl(src, swarm_opts(rng)), "E7 multi", "vocabulary")
        acc.sample = {"space": "E7 multi", "example": last}
    elif g == "nest":
        for idx in range(case["lo"], case["hi"]):
            o = idx % len(OPENERS)
            i1 = (idx // len(OPENERS)) % len(INNERS)
            i2 = idx // (len(OPENERS) * len(INNERS))
            opener, closer = OPENERS[o]
            src = "\tcpu %s\n%s\n%s\n%s\n%s\n\tnop\n" % ("z80" if idx & 1 else "68000", opener, INNERS[i1], closer if (idx >> 1) & 1 else "", INNERS[i2])
            run_one(sim, acc, "asl", sc_asl(src, ["-U"] if idx % 7 == 0 else []), "nest %d" % idx, "construct-interplay")
        acc.sample = {"space": "construct interplay", "example": src}
    elif g == "nest2":
        no, ni = len(OPENERS), len(INNERS)
        total2 = no * no * ni * ni
        if "sample" in case:
            rng = Rng(case["seed"])
            idxs = []
            for _ in range(case["sample"]):
                i = rng.below(total2)
                if rng.chance(0.5):
                    # the inner construct is one that is expanded (macro call, IRP, IRPC, IRPN, REPT): those run their body
                    i = i - ((i // no) % no) * no + rng.below(5) * no
                idxs.append(i)
        else:
            idxs = range(case["lo"], case["hi"])
        src = ""
        for idx in idxs:
            o1 = idx % no
            o2 = (idx // no) % no
            i1 = (idx // (no * no)) % ni
            i2 = idx // (no * no * ni)
            op1, cl1 = OPENERS[o1]
            op2, cl2 = OPENERS[o2]
            # distinct names when the same construct is used twice
            op2, cl2 = op2.replace("m1", "m2").replace("s1", "s2").replace("u1", "u2").replace("f1", "f2").replace("sec", "sec2"), \
                cl2.replace("m1", "m2").replace("s1", "s2").replace("u1", "u2")
            src = "\tcpu %s\n%s\n\tnop\n%s\n%s\n%s\n%s\n\tnop\n%s\n\tnop\n" % (
                "z80" if idx & 1 else "68000", op1, op2, INNERS[i1], INNERS[i2], cl2, cl1 if (idx >> 1) % 3 else "")
            r, san, cls = run_one(sim, acc, "asl", sc_asl(src, cpu=10), "nest2 %d" % idx, "construct-interplay-2")
            if cls and "hang" in cls and may_not_terminate(src.encode()):
                acc.violations = [v for v in acc.violations if v["class"] != cls]
                acc.seen_cls.discard(cls)
                acc.bump(acc.probes, "hang_ignored_while_or_recursive_macro")
        acc.sample = {"space": "two-level construct interplay", "example": src}
    elif g == "maccall":
        for idx in range(case["lo"], case["hi"]):
            d = idx % len(MAC_DECLS)
            b = (idx // len(MAC_DECLS)) % len(MAC_BODIES)
            c = idx // (len(MAC_DECLS) * len(MAC_BODIES))
            src = "\tcpu z80\nmm\tmacro %s\n%s\n\tendm\n\tmm %s\nl1:\tmm %s\n\tnop\n" % (MAC_DECLS[d], MAC_BODIES[b], MAC_CALLS[c], MAC_CALLS[(c * 7 + 3) % len(MAC_CALLS)])
            run_one(sim, acc, "asl", sc_asl(src), "maccall %d" % idx, "macro-call")
        acc.sample = {"space": "macro definition x call arguments", "example": src}
    elif g == "raw":
        rng = Rng(case["seed"])
        for _ in range(case["n"]):
            n = rng.randint(0, 256)
            mode = rng.below(3)
            if mode == 0:
                s = bytes(rng.below(256) for _ in range(n))
            elif mode == 1:
                s = bytes(rng.choice(b"\t\n \"'(),.;:[]\\{}$%#@!*+-/<>=&|^~0123456789abcxyzABC") for _ in range(n))
            else:
                s = ("\tcpu z80\n" + "".join(rng.choice(["\t", " ", "\n", "db", "macro", "endm", "if", "x", "1", ",", "\"", "(", ")", "[", "]", "irp", "rept", "struct", "\\"]) for _ in range(n // 2))).encode()
            run_one(sim, acc, "asl", sc_asl(s, swarm_opts(rng, 0.05)), "E8 raw %d bytes" % n, "raw-bytes")
        acc.sample = {"space": "E8", "n": case["n"]}
    elif g == "toolopt":
        rng = Rng(case["seed"])
        refs = ref_files(sim)
        for _ in range(case["n"]):
            prog, argv, name, b = gen_toolopt(rng, refs)
            sc = sc_tool(prog, argv, b, {"/w/g.p": refs["z80"]})
            run_one(sim, acc, prog, sc, "E9 %s %s" % (name, " ".join(argv)), "tool-options")
        acc.sample = {"space": "E9", "n": case["n"]}
    elif g == "symfault":
        t = corpus.by_name(case["test"])
        pos = symfault_positions(t)
        rng = Rng(case.get("seed", mix(1, t.name, case.get("lo", 0))))
        idx = sorted(rng.sample(range(len(pos)), min(case["sample"], len(pos)))) if "sample" in case else range(case["lo"], case["hi"])
        idents = sorted({t.src.split(b"\n")[l][a:b] for l, a, b in pos})
        for i in idx:
            variant = (i * 7 + pos[i][0]) % 3
            src, newline = symfault_apply(t, pos[i], variant, idents[(i * 31 + 7) % len(idents)])
            sc = dict(argv=list(t.flags) + ["-q", "-i", "/sim/inc", "/w/mut.asm", "-o", "/w/mut.p", "-shareout", "/w/mut.h"],
                      cwd="/sim/tests/" + t.name, disk={"/w/mut.asm": src},
                      env={"LANG": "C", "ASL_VERIF_MAX_LINES": "400000"}, max_disk=32 << 20, cpu=30)
            r, san, cls = run_one(sim, acc, "asl", sc, "symbol fault %s line %d: %s" % (t.name, pos[i][0] + 1, newline.decode("latin1").strip()), "symbol-fault")
            if cls and "hang" in cls and may_not_terminate(src):
                acc.violations = [v for v in acc.violations if v["class"] != cls]
                acc.seen_cls.discard(cls)
                acc.bump(acc.probes, "hang_ignored_while_or_recursive_macro")
        acc.sample = {"space": "E11 symbol faults", "golden": t.name, "positions": len(pos)}
    elif g == "symstack":
        srcs = symstack_sources()
        for i, src in enumerate(srcs):
            run_one(sim, acc, "asl", sc_asl(src, cpu=10), "E13 symbol stack %d" % i, "symbol-stack")
        acc.sample = {"space": "E13", "programs": len(srcs)}
    elif g == "manyargs":
        refs = ref_files(sim)
        ref = refs[sorted(refs)[0]]
        nums = lambda a, b: ",".join(str(i) for i in range(a, b))
        for n in (200, 254, 255, 256, 257, 258, 300, 1000):
            run_one(sim, acc, "asl", sc_asl("\tcpu z80\n\tnop\n", ["-q"] * n, cpu=10), "E15 asl with %d options" % n, "many-arguments")
            run_one(sim, acc, "asl", dict(argv=["-q"] + ["a.asm"] * n, cwd="/w", disk={"/w/a.asm": b"\tcpu z80\n\tnop\n"}, env={"LANG": "C"}, cpu=20),
                    "E15 asl with %d source arguments" % n, "many-arguments")
            for prog, tail in (("plist", []), ("p2bin", ["out.bin"]), ("p2hex", ["out.hex"]), ("pbind", ["out.p"]), ("alink", ["out.p"])):
                run_one(sim, acc, prog, sc_tool(prog, ["f.p"] * n + tail, ref), "E15 %s with %d file arguments" % (prog, n), "many-arguments")
            for prog, tail in (("p2bin", ["f.p", "out.bin"]), ("p2hex", ["f.p", "out.hex"]), ("pbind", ["f.p", "out.p"])):
                run_one(sim, acc, prog, sc_tool(prog, tail + ["-f", "1"] * (n // 2), ref), "E15 %s with %d options" % (prog, n), "many-arguments")
        # filter lists given piecewise add up; every header byte value at most once
        for prog, tail in (("p2bin", ["f.p", "out.bin"]), ("p2hex", ["f.p", "out.hex"]), ("pbind", ["f.p", "out.p"])):
            for lists in ([nums(0, 80), nums(80, 160), nums(160, 256)], [nums(0, 60), nums(60, 101)], [nums(0, 60), nums(40, 100), nums(90, 130)],
                          [nums(0, 70)] * 3):
                argv = list(tail)
                for l in lists:
                    argv += ["-f", l]
                run_one(sim, acc, prog, sc_tool(prog, argv, ref), "E15 %s filter lists of %s entries" % (prog, "+".join(str(l.count(",") + 1) for l in lists)), "many-arguments")
                run_one(sim, acc, prog, sc_tool(prog, argv + ["+f", nums(0, 50)], ref), "E15 %s filter lists with removal" % prog, "many-arguments")
        # arguments longer than the assembler's string buffers (255 characters), per option that takes one
        for ln in (254, 255, 256, 257, 300, 1100, 5000):
            big = "a" * ln
            for opt in ("-o", "-olist", "-shareout", "-E", "-i", "-D", "-g", "-cpu", "-alias", "-t", "-listradix", "-splitbyte", "-maxerrors",
                        "-maxinclevel", "+D", "+i", "-r", "-P", "-L"):
                for val in (big, "/w/" + big, big + "=1", "=" + big, big + "," + big):
                    if val is not big and opt not in ("-o", "-i", "-D", "-alias", "-E"):
                        continue
                    run_one(sim, acc, "asl", sc_asl("\tcpu z80\n\tnop\n", ["-L", opt, val], cpu=10), "E15 asl %s with an argument of %d characters" % (opt, len(val)), "long-argument")
            run_one(sim, acc, "asl", dict(argv=["-q", "-L", big + ".asm"], cwd="/w", disk={"/w/" + big + ".asm": b"\tcpu z80\n\tnop\n"}, env={"LANG": "C"}, cpu=10),
                    "E15 asl source name of %d characters" % ln, "long-argument")
            for prog, tail in (("p2bin", ["f.p", "out.bin"]), ("p2hex", ["f.p", "out.hex"]), ("pbind", ["f.p", "out.p"]), ("plist", ["f.p"]), ("alink", ["f.p", "out.p"])):
                for opt in ("-r", "-f", "-l", "-e", "-S", "-F", "-a", "-s", "-i", "-d", "-m", "-k"):
                    run_one(sim, acc, prog, sc_tool(prog, tail + [opt, big], ref), "E15 %s %s with an argument of %d characters" % (prog, opt, ln), "long-argument")
                run_one(sim, acc, prog, sc_tool(prog, [big] + tail[1:], ref, extra={"/w/" + big + ".p": ref}), "E15 %s file name of %d characters" % (prog, ln), "long-argument")
                run_one(sim, acc, prog, sc_tool(prog, tail[:1] + [big], ref), "E15 %s target name of %d characters" % (prog, ln), "long-argument")
        # the disassembler: many arguments, many symbols and entry addresses, long arguments
        img = bytes(range(64))
        for n in (100, 254, 255, 256, 257, 300, 1000):
            base = ["-cpu", "z80", "-binfile", "/w/i.bin@0"]
            for argv in (base + ["-entryaddress", "0"] * (n // 2), base + ["-symbol", "s=1"] * (n // 2),
                         base + sum((["-symbol", "s%d=%d" % (i, i)] for i in range(n // 2)), []),
                         base + sum((["-entryaddress", "%d" % (i & 63)] for i in range(n // 2)), []),
                         ["-cpu", "z80"] + sum((["-binfile", "/w/i.bin@%d" % (64 * i)] for i in range(n // 2)), [])):
                run_one(sim, acc, "dasl", dict(argv=argv, cwd="/w", disk={"/w/i.bin": img}, env={"LANG": "C"}), "E15 dasl with %d arguments" % len(argv), "many-arguments")
        for ln in (254, 255, 256, 257, 300, 1100, 5000):
            big = "a" * ln
            for opt in ("-cpu", "-binfile", "-hexfile", "-entryaddress", "-symbol"):
                for val in (big, big + "=1", "1=" + big, "/w/" + big + "@0", "/w/i.bin@" + "1" * ln, "(0,2)," + big):
                    run_one(sim, acc, "dasl", dict(argv=["-cpu", "z80", "-binfile", "/w/i.bin@0", opt, val], cwd="/w", disk={"/w/i.bin": img}, env={"LANG": "C"}),
                            "E15 dasl %s with an argument of %d characters" % (opt, len(val)), "long-argument")
        acc.sample = {"space": "E15"}
    elif g == "secdecl":
        rng = Rng(case["seed"])
        for i in range(case["n"]):
            src = secdecl_source(rng)
            run_one(sim, acc, "asl", sc_asl(src, ["-L"] if i % 4 == 0 else [], cpu=10), "E14 section declarations %d" % i, "section-declarations")
        acc.sample = {"space": "E14", "programs": case["n"]}
    elif g == "longline":
        for n in LL_LENGTHS:
            src = longline_source(n, case["shape"])
            for opts in ([], ["-L", "-P", "-M"]):
                run_one(sim, acc, "asl", sc_asl(src, opts, cpu=10), "E12 %s line of %d characters" % (case["shape"], n), "line-length")
            # the same line in a listing with a page width: the listing writer expands tabs and folds it
            paged = src.replace("\n", "\n\tpage %d,%d\n" % ((60, 80) if n & 1 else (0, 255 if n & 2 else 5)), 1)
            run_one(sim, acc, "asl", sc_asl(paged, ["-L"], cpu=10), "E12 %s line of %d characters, PAGE with a width" % (case["shape"], n), "line-length")
        acc.sample = {"space": "E12", "shape": case["shape"], "lengths": len(LL_LENGTHS)}
    elif g == "fileread":
        stmts = fileread_cases()
        extra = {"/w/" + k: v for k, v in list(FR_BLOBS.items()) + list(FR_INCS.items())}
        for idx in range(case["lo"], case["hi"]):
            src = "\tcpu %s\n\tnop\n%s\n\tnop\n" % ("z80" if idx & 1 else "68000", stmts[idx])
            run_one(sim, acc, "asl", sc_asl(src, ["-L"] if idx % 5 == 0 else [], extra_disk=extra, max_disk=32 << 20, cpu=10),
                    "E10 %s" % stmts[idx].strip(), "file-reading-statement")
        acc.sample = {"space": "E10", "statements": len(stmts), "example": stmts[case["lo"]]}
    elif g == "toolpair":
        refs = ref_files(sim)
        pairs = tool_pairs(case["prog"])
        if "sample" in case:
            idx = sorted(Rng(case["seed"]).sample(range(len(pairs)), min(case["sample"], len(pairs))))
        else:
            idx = range(case["lo"], case["hi"])
        for i in idx:
            argv = ["f.p", "out.o"] + pairs[i]
            run_one(sim, acc, case["prog"], sc_tool(case["prog"], argv, refs[case["ref"]]),
                    "E9 pair %s %s" % (case["ref"], " ".join(pairs[i])), "tool-option-pair")
        acc.sample = {"space": "E9 pairs", "prog": case["prog"], "ref": case["ref"], "pairs": len(pairs), "run": len(idx)}
    elif g == "dasl":
        rng = Rng(case["seed"])
        for _ in range(case["n"]):
            n = rng.randint(0, 200)
            cpu = rng.choice(["6800", "6802", "87c800", "4004", "4040", "z80", "", "87c00"])
            if rng.chance(0.5):
                img = bytes(rng.below(256) for _ in range(n))
                argv = ["-cpu", cpu, "-binfile", "/w/i.bin@%s" % rng.choice(["0", "$100", "0xfff0", "$ffffffff", "-1", "x", "$ff0", "$ffe", "0xfff8", "$fff"]),
                        "-entryaddress", rng.choice(["0", "$100", "0xfff8", "$ffffffff", "x", "0,1,2", "(0,1)", "(0,2),reset", "(%d,1),last" % max(n - 1, 0),
                                                     "(%d,2),v" % max(n - 2, 0), "(%d,2,lsb)" % max(n - 1, 0), "(0,8,msb),big", "(0,9)", "(,)", "(0", "(0,2,xsb)",
                                                     "(%d,1)" % n, "(0,0)", "(0,2),", "()", "($100,2),r", "(0xfff8,2,lsb),vec",
                                                     # the ends of the targets' address spaces (4 KiB, 64 KiB)
                                                     "0xfff", "0x1000", "0x1001", "0xffff", "0x10000", "$ffe", "($ffe,2)", "($fff,1),e"])]
                disk = {"/w/i.bin": img}
            else:
                # a plausible Intel-hex or S-record text with random damage
                recs = []
                addr = rng.below(0x10000)
                for _k in range(rng.randint(0, 6)):
                    data = bytes(rng.below(256) for _ in range(rng.randint(0, 20)))
                    body = bytes([len(data), (addr >> 8) & 255, addr & 255, rng.choice([0, 0, 0, 1, 2, 4, 5, 9])]) + data
                    cs = (-sum(body)) & 255
                    recs.append(":" + (body + bytes([cs])).hex().upper())
                    addr = (addr + len(data)) & 0xFFFF
                recs.append(":00000001FF")
                txt = bytearray(("\n".join(recs) + "\n").encode())
                for _k in range(rng.below(4)):
                    if txt:
                        o = rng.below(len(txt))
                        if rng.chance(0.5):
                            txt[o] = rng.below(256)
                        else:
                            del txt[o:]
                argv = ["-cpu", cpu, "-hexfile", "/w/i.hex", "-entryaddress", rng.choice(["0", "$100", "0xfff8"])]
                disk = {"/w/i.hex": bytes(txt)}
            if rng.chance(0.2):
                argv += ["-symbol", rng.choice(["x=0", "=", "x", "x=$10000000000", "lab=0x100", "0=Vector_5000_x", "0=Vector_9_y", "0=Vector_0_z",
                                                "$100=Vector_2_ok", "0=Vector__", "0=Vector_-1_n", "1=Vector_11_m", "0xfff=Vector_2_top"])]
            sc = dict(argv=argv, cwd="/w", disk=disk, env={"LANG": "C"})
            run_one(sim, acc, "dasl", sc, "dasl fuzz", "dasl-input")
        acc.sample = {"space": "dasl inputs", "n": case["n"]}
    else:
        return {"machinery_error": "unknown generator %r" % g}
    return {"violations": acc.violations, "runs": acc.runs, "sim_us": acc.sim_us, "stats": acc.stats,
            "faults": acc.faults, "probes": acc.probes, "keys": acc.keys, "shapes": sorted(acc.shapes),
            "sample": acc.sample, "digest": None, "observations": acc.obs, "distinct": acc.runs}


# ------------------------------------------------------------------ minimisation
def minimise(sim, case, vclass):
    """Shrink an explicit source scenario: drop lines (ddmin), then options; tool inputs are kept as is."""
    from ..sim import scenario_from_json
    if case.get("kind") != "explicit" or case["prog"] != "asl" or "/hang/" in vclass:
        return case  # (every test of a hang costs the whole budget: keep the case as found)
    sc = scenario_from_json(case["scenario"])
    srcs = [p for p in sc.get("disk", {}) if p.endswith(".asm")]
    if len(srcs) != 1:
        return case
    sp = srcs[0]

    def holds(lines, argv=None):
        s2 = dict(sc)
        s2["disk"] = dict(sc["disk"])
        s2["disk"][sp] = b"\n".join(lines) + b"\n"
        if argv is not None:
            s2["argv"] = argv
        r = run_case(sim, explicit("asl", s2, case.get("origin", "")))
        return vclass in [v["class"] for v in r["violations"]]

    lines = sc["disk"][sp].split(b"\n")
    if len(lines) > 1 and not lines[-1]:
        lines = lines[:-1]
    if not holds(lines):
        return case
    lines = ddmin(lines, lambda ls: holds(ls), max_tests=250)
    argv = list(sc["argv"])
    # drop single option words that are not needed (keep file arguments)
    i = 0
    while i < len(argv):
        if argv[i].startswith("-") and argv[i] not in ("-o", "-i", "-shareout", "-q"):
            cand = argv[:i] + argv[i + 1:]
            if holds(lines, cand):
                argv = cand
                continue
        i += 1
    s2 = dict(sc)
    s2["disk"] = dict(sc["disk"])
    s2["disk"][sp] = b"\n".join(lines) + b"\n"
    s2["argv"] = argv
    return explicit("asl", s2, case.get("origin", "") + " (minimised)")


def evidence_extra(agg):
    return {"fault_spaces": {"E1": "all prefixes", "E2": "bit flips", "E3": "field edits", "E4": "writer crash points",
                             "E5": "source EOF", "E6": "source mutation", "E7": "vocabulary", "E8": "raw bytes"}}
