"""C04 - the code file contains exactly the program's bytes at the program's addresses.

The writer is a 512-byte write-behind buffer on top of a buffered stdio stream with seeks and
back-patching; whether a boundary is hit depends on tuning constants and the order of operations reaching
the file.  The simulator owns both: the private buffer size (hook H3), the stdio buffer size of every
stream and the read chunking of the source.  Oracle: an independent reader (doc/file-formats.md) and an
independent memory model of the generated statements; metamorphic over the knobs (same program => same
file); the golden corpus under the knobs (same records, p2bin rendering equals the trusted .ori).
"""
import re
from .. import codefile, corpus, oracle
from ..driver import chash, ddmin
from ..rng import Rng, mix
from ..sim import EV_SEEK, EV_WRITE, scenario_from_json, scenario_to_json

ID = "C04"
LEVEL = "exploration"
VARIANTS = ("plain", "asan")
EVAL_RUNS = True
RULE = ("generated programs of 1-60 statements (data of k bytes/words with k from {1,2,3,255..257,510..514,1023..1025,"
        "4095..4097,65534..65537} and random, strings, ALIGN with and without fill value, BINCLUDE with offset/length, reservations, "
        "ORG forward/backward/overlapping, SEGMENT with and without ORG, CPU switches between 12 byte-, word- and 4-byte-granular "
        "targets of both byte orders with and without ORG, no CPU statement at all (-cpu / built-in default), END addr, zero-length "
        "statements; 40% of the programs with blocks wrapped in INCLUDE / nested INCLUDE / MACRO / REPT / IRP / IF / SECTION / PHASE / "
        "LISTING) x knob settings (private code buffer 1..4096 via hook H3, stdio buffer unbuffered..64K, source read chunking); plus "
        "every golden program under 3-12 knob settings. non-trivial = >=1 private-buffer flush inside a record, a record split at "
        "64 KiB, or an overwritten empty record (measured from the write log / parsed file); distinct by (program, knobs) content hash")
COMPONENTS = {"real": ["asl: all repository code incl. hook H3 (code-buffer size)", "p2bin (golden corpus rendering)"],
              "stubbed": ["storage below FILE* (records every write/seek)", "clock", "environment", "cwd"],
              "untouched": ["glibc stdio", "libm"]}
ASSUMPTIONS = ["memory model covers only statements whose byte meaning is unambiguous in the manual (DB/DW/DS, BYT/ADR/DFS, "
               "DC.B/W/L/DS.B with PADDING OFF, DATA/RES, WORD/BSS)", "the .ori files are trusted renderings of the golden programs"]

# target table: name, header id, granularity (bytes per address), statements
TARGETS = {
    "z80": dict(hdr=0x51, gran=1, byte="db", word=("dw", 2, "le"), res="ds", dup="%d dup (%s)", limit=0xFFFF, segs=["code"]),
    "6502": dict(hdr=0x11, gran=1, byte="byt", word=("adr", 2, "le"), res="dfs", dup=None, limit=0xFFFF, segs=["code"]),
    # the Motorola 8-bit pseudo-ops serve both byte orders: one decoder shared by the 65xx and the 68xx families
    "6809": dict(hdr=0x63, gran=1, byte="fcb", word=("fdb", 2, "be"), res="rmb", dup=None, limit=0xFFFF, segs=["code"]),
    "6811": dict(hdr=0x61, gran=1, byte="byt", word=("adr", 2, "be"), res="dfs", dup=None, limit=0xFFFF, segs=["code"]),
    "8051": dict(hdr=0x31, gran=1, byte="db", word=("dw", 2, "le"), res="ds", dup="%d dup (%s)", limit=0xFFFF,
                 segs=["code", "xdata", "idata", "data"]),
    "68000": dict(hdr=0x01, gran=1, byte="dc.b", word=("dc.w", 2, "be"), long=("dc.l", 4, "be"), res="ds.b", dup="[%d]%s",
                  limit=0xFFFFFF, segs=["code"], prologue="\tpadding off\n"),
    # the same target with its documented default PADDING ON: a pad byte (0) goes in front of word / long data at an odd address
    "68000p": dict(hdr=0x01, gran=1, byte="dc.b", word=("dc.w", 2, "be"), long=("dc.l", 4, "be"), res="ds.b", dup="[%d]%s",
                   limit=0xFFFFFF, segs=["code"], cpuname="68000", pad=True),
    "17c42": dict(hdr=0x72, gran=2, unit=("data", 2, "le", 0xFFFF), res="res", dup=None, limit=0xFFFF, segs=["code"]),
    "320c25": dict(hdr=0x75, gran=2, unit=("word", 2, "le", 0xFFFF), res="bss", dup=None, limit=0xFFFF, segs=["code"]),
    "16c84": dict(hdr=0x70, gran=2, unit=("data", 2, "le", 0x3FFF), res="res", dup=None, limit=0x3FF, segs=["code"]),
    # 16-bit code words written high byte first; DB packs two bytes into one word (the first one into the upper half)
    "kcpsm": dict(hdr=0x6B, gran=2, unit=("dw", 2, "be", 0xFFFF), res="ds", dup=None, limit=0xFF, segs=["code"]),
    "320c30": dict(hdr=0x76, gran=4, unit=("word", 4, "le", 0xFFFFFFFF), res="bss", dup=None, limit=0xFFFFFF, segs=["code"]),
}
SEGNUM = {"code": 1, "data": 2, "idata": 3, "xdata": 4}
SEGLIMIT_8051 = {"code": 0xFFFF, "xdata": 0xFFFF, "idata": 0xFF, "data": 0x7F}
BLOB = bytes((i * 37 + 11) & 0xFF for i in range(520))  # file read by BINCLUDE statements
LENS = [1, 2, 3, 255, 256, 257, 510, 511, 512, 513, 514, 1023, 1024, 1025, 4095, 4096, 4097]
BIGLENS = [65534, 65535, 65536, 65537]


def enc(v, width, order):
    b = [(v >> (8 * i)) & 0xFF for i in range(width)]
    return b if order == "le" else b[::-1]


class Model:
    """Independent memory model: ordered stream of (header, seg, gran, byte_address, byte) the source specifies."""

    def __init__(self):
        self.stream = []
        self.pcs = {}
        self.cpu = None
        self.seg = "code"
        self.entry = None

    def pc(self):
        return self.pcs.get(self.seg, 0)

    def emit(self, bytes_):
        t = TARGETS[self.cpu]
        base = self.pc() * t["gran"]
        for i, v in enumerate(bytes_):
            self.stream.append((t["hdr"], SEGNUM[self.seg], t["gran"], base + i, v))
        self.pcs[self.seg] = self.pc() + len(bytes_) // t["gran"]

    def reserve(self, units):
        self.pcs[self.seg] = self.pc() + units


def intel_elems(arg):
    """Elements of an Intel-style data argument list of the forms the generator writes: v | ? | n dup (v,..) | n dup (?)"""
    out = []
    for item in re.findall(r"\d+ dup \([^)]*\)|[^,\s]+", arg):
        if " dup " in item:
            cnt, _, rest = item.partition(" dup ")
            out += intel_elems(rest.strip("()")) * int(cnt)
        else:
            out.append(None if item == "?" else int(item))
    return out


def apply_intel(m, op, arg):
    """DN (two nibbles per byte, low nibble first, the last byte of a statement padded) and the reserving forms of DB/DW/DN"""
    el = intel_elems(arg)
    if m.cpu == "kcpsm":
        if all(e is None for e in el):
            m.reserve({"db": (len(el) + 1) // 2, "dw": len(el)}[op])
            return
        assert op == "db" and None not in el
        m.emit(el + [0] * (len(el) & 1))
        return
    if all(e is None for e in el):
        m.reserve({"db": len(el), "dw": 2 * len(el), "dn": (len(el) + 1) // 2}[op])
        return
    assert op == "dn" and None not in el
    if len(el) & 1:
        el = el + [0]
    m.emit([el[i] | (el[i + 1] << 4) for i in range(0, len(el), 2)])


def apply_moto_ds(m, t, ws, cnt):
    if t.get("pad") and m.pc() & 1:
        m.reserve(1)  # the automatic pad byte in front of a reservation is reserved too, not written
    m.reserve(cnt * ws if cnt else (-m.pc()) % ws)


def gen_program(rng, big=False):
    """Returns (source lines, model)."""
    m = Model()
    L = []
    total = 0
    cpus = list(TARGETS)
    budget = 200000 if big else 20000

    def switch_cpu(c):
        same = m.cpu is not None and TARGETS[m.cpu].get("cpuname", m.cpu) == TARGETS[c].get("cpuname", c)
        if same and not TARGETS[c].get("prologue"):
            c = m.cpu  # naming the target that is already selected leaves its PADDING setting as it is
        m.cpu = c
        m.seg = "code"  # a CPU statement makes CODE the active segment again
        L.append("\tcpu %s" % TARGETS[c].get("cpuname", c))
        if TARGETS[c].get("prologue"):
            L.append(TARGETS[c]["prologue"].rstrip("\n"))

    def limit():
        t = TARGETS[m.cpu]
        return SEGLIMIT_8051[m.seg] if m.cpu == "8051" else t["limit"]

    def org(a):
        m.pcs[m.seg] = a
        L.append("\torg %d" % a)

    if not big and rng.chance(0.25):
        # no CPU statement at the top: the target comes from -cpu, or is the built-in default (68008)
        c0 = rng.choice(cpus + ["68000"])
        L.append("; cpu0=%s %s" % (c0, "default" if c0 in ("68000", "68000p") and rng.chance(0.5) else "option"))
        m.cpu = c0
        m.seg = "code"
        if TARGETS[c0].get("prologue"):
            L.append(TARGETS[c0]["prologue"].rstrip("\n"))
    else:
        switch_cpu(rng.choice(["68000", "320c30", "17c42", "320c25"]) if big else rng.choice(cpus + ["8051", "8051"]))
    org(rng.choice([0, 0, 16, 256, 4096]) if limit() >= 8192 else rng.choice([0, 16]))
    n = rng.randint(1, 60)
    for _ in range(n):
        t = TARGETS[m.cpu]
        room = limit() - m.pc()
        k = rng.below(13)
        if k <= 5:
            # data
            if big and rng.chance(0.25):
                cnt = rng.choice(BIGLENS) + rng.choice([0, 0, 1, -1])
            else:
                cnt = rng.choice(LENS) if rng.chance(0.5) else rng.randint(1, 40)
            if "unit" in t:
                stmt, width, order, vmax = t["unit"]
                if big and cnt >= 60000:
                    # one contiguous run straddling the 64 KiB record limit, in lines of 32 equal words
                    cnt = max(1, min(cnt // width + rng.choice([-1, 0, 0, 1, 2]), room, (budget - total) // width))
                    v = rng.below(vmax + 1)
                    done = 0
                    while done < cnt:
                        k2 = min(32, cnt - done)
                        L.append("\t%s %s" % (stmt, ",".join([str(v)] * k2)))
                        m.emit(enc(v, width, order) * k2)
                        done += k2
                    total += cnt * width
                    continue
                cnt = max(1, min(cnt, room, (budget - total) // width, 300))
                if cnt <= 0 or room < 1:
                    continue
                vals = [rng.below(vmax + 1) if rng.chance(0.7) else rng.choice([0, 1, vmax]) for _ in range(cnt)]
                for i in range(0, cnt, 16):
                    chunk = vals[i:i + 16]
                    L.append("\t%s %s" % (stmt, ",".join(str(v) for v in chunk)))
                    bs = []
                    for v in chunk:
                        bs += enc(v, width, order)
                    m.emit(bs)
                total += cnt * width
            else:
                kind = rng.choice(["byte", "byte", "word", "long"])
                if kind == "long" and "long" not in t:
                    kind = "word"
                if kind == "byte":
                    cnt = max(0, min(cnt, room, budget - total))
                    if cnt <= 0:
                        continue
                    if t["dup"] and cnt > 12:
                        # repetition form: one statement, cnt bytes of a short pattern
                        pat = [rng.below(256) for _ in range(rng.choice([1, 1, 2, 3]))]
                        reps = cnt // len(pat)
                        if reps < 1:
                            continue
                        if m.cpu in ("68000", "68000p"):
                            if len(pat) > 1:
                                pat = pat[:1]
                                reps = cnt
                            L.append("\t%s %s" % (t["byte"], t["dup"] % (reps, str(pat[0]))))
                        else:
                            L.append("\t%s %s" % (t["byte"], t["dup"] % (reps, ",".join(str(v) for v in pat))))
                        m.emit(pat * reps)
                        total += reps * len(pat)
                    else:
                        cnt = min(cnt, 200)
                        vals = [rng.below(256) for _ in range(cnt)]
                        for i in range(0, cnt, 20):
                            chunk = vals[i:i + 20]
                            L.append("\t%s %s" % (t["byte"], ",".join(str(v) for v in chunk)))
                            m.emit(chunk)
                        total += cnt
                else:
                    stmt, width, order = t[kind]
                    cnt = max(0, min(cnt, (room - 1) // width, 100, (budget - total) // width))
                    if cnt <= 0:
                        continue
                    if t.get("pad") and m.pc() & 1:
                        m.emit([0])  # automatic pad byte
                        total += 1
                    vals = [rng.below(1 << (8 * width)) for _ in range(cnt)]
                    for i in range(0, cnt, 10):
                        chunk = vals[i:i + 10]
                        L.append("\t%s %s" % (stmt, ",".join(str(v) for v in chunk)))
                        bs = []
                        for v in chunk:
                            bs += enc(v, width, order)
                        m.emit(bs)
                    total += cnt * width
        elif k == 6:
            r = rng.choice([1, 2, 3, 16, 255, 256, 512, 1000])
            r = min(r, room)
            if r <= 0:
                continue
            if m.cpu in ("68000", "68000p") and rng.chance(0.4) and room > 64:
                # word / long reservations: padded like word data; a count of 0 is the idiom for aligning the counter
                op, ws = rng.choice([("ds.w", 2), ("ds.l", 4)])
                cnt = rng.choice([0, 0, 1, 2, 3])
                L.append("\t%s %d" % (op, cnt))
                apply_moto_ds(m, t, ws, cnt)
                continue
            L.append("\t%s %d" % (t["res"], r))
            m.reserve(r)
            if rng.chance(0.3) and room - r > 4:  # back-to-back reservations (empty-record elision)
                r2 = min(rng.randint(1, 8), room - r)
                L.append("\t%s %d" % (t["res"], r2))
                m.reserve(r2)
        elif k == 7:
            lim = limit()
            a = rng.choice([m.pc(), max(0, m.pc() - rng.randint(1, 20)), min(lim, m.pc() + rng.randint(1, 5000)), rng.below(min(lim, 60000) + 1)])
            org(a)
        elif k == 8 and len(t["segs"]) > 1:
            new_seg = rng.choice(t["segs"])
            if new_seg in m.pcs and new_seg != m.seg and rng.chance(0.6):
                # switch onto a segment whose counter is known, without ORG; half of the time make the two counters
                # coincide first (a switch that does not change the numeric PC), then emit data at once
                if rng.chance(0.5) and m.pcs[new_seg] <= limit() - 4:
                    org(m.pcs[new_seg])
                m.seg = new_seg
                L.append("\tsegment %s" % m.seg)
                if limit() - m.pc() >= 2:
                    vals = [rng.below(256), rng.below(256)]
                    L.append("\t%s %d,%d" % (t["byte"], vals[0], vals[1]))
                    m.emit(vals)
                    total += 2
                continue
            m.seg = new_seg
            L.append("\tsegment %s" % m.seg)
            # the initial counter of a segment is target specific (e.g. 8051 DATA starts at $30): always set it
            org(rng.below(SEGLIMIT_8051[m.seg] - 8))
        elif k == 9 and not big:
            c = rng.choice(cpus)
            switch_cpu(c)
            lim = limit()
            # the CODE counter survives a CPU switch: half of the time carry on where the previous target stopped
            if not ("code" in m.pcs and m.pcs["code"] + 64 <= lim and rng.chance(0.5)):
                org(rng.below(min(lim, 30000)))
        elif k == 10:
            L.append(rng.choice(["", "; comment", "lbl%d:" % len(L), "\tlisting on"]))
        elif k == 11:
            room = limit() - m.pc()
            sub = rng.below(3)
            if sub == 0 and room > 40:
                # ALIGN: reservation up to the next multiple, or fill bytes when a fill value is given
                n = rng.choice([2, 4, 8, 16, 3, 256])
                gap = (-m.pc()) % n
                if gap >= room:
                    continue
                if rng.chance(0.5):
                    fill = rng.below(256)
                    L.append("\talign %d,%d" % (n, fill))
                    if gap:
                        m.emit([fill] * (gap * t["gran"]))
                        total += gap * t["gran"]
                else:
                    L.append("\talign %d" % n)
                    m.reserve(gap)
            elif sub == 1 and t["gran"] == 1 and room > 40 and "byte" in t:
                txt = "".join(rng.choice("AbCxyz 019_+") for _ in range(rng.randint(1, 30)))
                stmt = {"6809": "fcc", "6811": "fcc"}.get(m.cpu, t["byte"])
                L.append("\t%s \"%s\"" % (stmt, txt))
                m.emit([ord(c) for c in txt])
                total += len(txt)
            elif sub == 2 and t["gran"] == 1 and room > 600:
                off = rng.choice([0, 0, 1, 100, 255, 500])
                ln = rng.choice([1, 2, 16, 255, 256, 257, 511, 512])
                ln = min(ln, len(BLOB) - off)
                form = rng.below(3)
                if form == 0:
                    L.append("\tbinclude \"blob.bin\",%d,%d" % (off, ln))
                elif form == 1:
                    ln = len(BLOB) - off
                    L.append("\tbinclude \"blob.bin\",%d" % off)
                else:
                    off, ln = 0, len(BLOB)
                    L.append("\tbinclude \"blob.bin\"")
                m.emit(list(BLOB[off:off + ln]))
                total += ln
        elif k == 12 and m.cpu == "kcpsm" and limit() - m.pc() > 20:
            op = rng.choice(["db", "db", "db", "dw"])
            if op == "db" and rng.chance(0.6):
                items = []
                for _ in range(rng.randint(1, 4)):
                    if rng.chance(0.3):
                        items.append("%d dup (%s)" % (rng.randint(2, 3), ",".join(str(rng.below(256)) for _ in range(rng.randint(1, 3)))))
                    else:
                        items.append(str(rng.below(256)))
            else:
                items = ["?"] * rng.below(4)
                for _ in range(rng.randint(0 if items else 1, 2)):
                    items.append("%d dup (%s)" % (rng.randint(2, 4), ",".join(["?"] * rng.choice([1, 1, 2, 3]))))
                    items += ["?"] * rng.below(3)
            arg = ",".join(items)
            L.append("\t%s %s" % (op, arg))
            apply_intel(m, op, arg)
            if rng.chance(0.7):
                v = rng.below(65536)
                L.append("\tdw %d" % v)
                m.emit(enc(v, 2, "be"))
                total += 2
        elif k == 12 and m.cpu in ("z80", "8051") and limit() - m.pc() > 40:
            # Intel-style reservations written with ? and DUP, and nibble data: several elements share one target byte
            op = rng.choice(["dn", "dn", "db", "dw"]) if m.cpu == "z80" else rng.choice(["db", "dw"])
            if op == "dn" and rng.chance(0.5):
                items = []
                for _ in range(rng.randint(1, 4)):
                    if rng.chance(0.3):
                        items.append("%d dup (%s)" % (rng.randint(2, 5), ",".join(str(rng.below(16)) for _ in range(rng.randint(1, 3)))))
                    else:
                        items.append(str(rng.below(16)))
            else:
                items = ["?"] * rng.below(4)
                for _ in range(rng.randint(0 if items else 1, 2)):
                    items.append("%d dup (%s)" % (rng.randint(2, 6), ",".join(["?"] * rng.choice([1, 1, 2, 3]))))
                    items += ["?"] * rng.below(3)
            arg = ",".join(items)
            L.append("\t%s %s" % (op, arg))
            apply_intel(m, op, arg)
            if rng.chance(0.7):
                v = rng.below(256)
                L.append("\tdb %d" % v)
                m.emit([v])
                total += 1
    if rng.chance(0.3):
        m.entry = rng.below(min(limit(), 60000) + 1)
        L.append("\tend %d" % m.entry)
    return L, m


KNOB_CODEBUF = [1, 2, 3, 7, 64, 511, 512, 513, 4096]
KNOB_STDIO = [0, 1, 16, 512, 4096, 65536]
KNOB_CHUNK = [0, 1, 7, 100]


def knob_env(rng):
    return {"codebuf": rng.choice(KNOB_CODEBUF), "stdio_buf": rng.choice(KNOB_STDIO), "read_chunk": rng.choice(KNOB_CHUNK)}


def scenario(src, knobs, extra_disk=None, argv=None, cwd="/w"):
    env = {"LANG": "C"}
    if knobs.get("codebuf"):
        env["ASL_VERIF_CODEBUF"] = str(knobs["codebuf"])
    disk = {"/w/a.asm": src, "/w/blob.bin": BLOB} if src is not None else {}
    if extra_disk:
        disk.update(extra_disk)
    return dict(argv=argv or ["-q", "a.asm"], cwd=cwd, disk=disk, env=env, stdio_buf=knobs.get("stdio_buf", 0),
                read_chunk=knobs.get("read_chunk", 0), want_events=1, max_events=1400000, cpu=60)


def file_stream(cf):
    out = []
    for r in cf.records:
        base = r.start * r.gran
        for i, v in enumerate(r.data):
            out.append((r.cpu, r.seg, r.gran, base + i, v))
    return out


def probes_from_log(r, cf, p_idx, acc):
    """Rare-condition counters from the write log of the code file."""
    evs = r.ev()
    recs = {rec.data_off: rec for rec in cf.records}
    spans = [(rec.data_off, rec.data_off + rec.length) for rec in cf.records if rec.length]
    flushes_in_record = 0
    overwritten = 0
    seen_hdr_writes = {}
    for e in evs:
        if e[3] != p_idx:
            continue
        if e[1] == EV_WRITE:
            off, ln = e[4], e[5]
            for a, b in spans:
                if a < off < b and off + ln <= b + 16:
                    flushes_in_record += 1
                    break
            if ln == 1:
                seen_hdr_writes[off] = seen_hdr_writes.get(off, 0) + 1
    overwritten = sum(1 for v in seen_hdr_writes.values() if v > 1)
    if flushes_in_record:
        acc["probes"]["flush_inside_record"] = acc["probes"].get("flush_inside_record", 0) + 1
    if overwritten:
        acc["probes"]["record_header_overwritten"] = acc["probes"].get("record_header_overwritten", 0) + 1
    if any(rec.length >= 0xFF00 for rec in cf.records):
        acc["probes"]["record_near_64k_limit"] = acc["probes"].get("record_near_64k_limit", 0) + 1
    return flushes_in_record or overwritten or any(rec.length >= 0xFF00 for rec in cf.records)


# a source assembled before the program in the same invocation: nothing of it may show in the program's code file
PREDECESSORS = ["\tcpu z80\n\torg 100h\n\tnop\n\tend 103h\n", "\tcpu 68000\n\torg $2000\n\tdc.w 1\n\tend $2000\n",
                "\tcpu 8051\n\tsegment data\n\torg 40h\nx:\tdb ?\n\tsegment xdata\n\torg 77h\n\tdb 1\n",
                "\tcpu 6809\n\torg $4000\n\tfdb $1234\n\trmb 7\n", "\tcpu 320c30\n\torg 5\n\tword 1\n\tbss 3\n",
                "\tcpu 6502\n\torg $300\n\tbyt 1\n\tphase $1000\n\tbyt 2\n", "\tcpu 17c42\n\torg 9\n\tdata 1,2\n\tend 9\n"]


WRAP_KINDS = ["include", "macro", "rept1", "irp1", "if1", "section", "phase", "listing", "include2", "struct-free"]


def wrap(lines, seed):
    """Wrap disjoint blocks of statements in constructs that do not change what bytes the source specifies, so that
    emission is interleaved with include-file boundaries, macro / REPT / IRP expansion, IF, SECTION and PHASE.
    Returns (source text, extra disk files, kinds used)."""
    rng = Rng(seed)
    n = len(lines)

    def plain(i):  # statements that may go anywhere
        w = lines[i].split()
        return bool(w) and w[0] not in ("end", "cpu", "padding") and not lines[i].rstrip().endswith(":")

    out = []
    extra = {}
    used = []
    i = 0
    k = 0
    macros = []
    while i < n:
        if rng.chance(0.25) and plain(i):
            j = i
            lim = rng.randint(1, 6)
            while j < n and j - i < lim and plain(j):
                j += 1
            block = lines[i:j]
            kind = rng.choice(WRAP_KINDS)
            # ALIGN and the automatic padding of word data work on the phased address
            has_ctl = any(b.split()[0] in ("org", "segment", "align", "dc.w", "dc.l", "ds.w", "ds.l") for b in block)
            if kind == "phase" and has_ctl:
                kind = "if1"
            k += 1
            if kind == "include":
                extra["/w/blk%d.inc" % k] = ("\n".join(block) + "\n").encode()
                out.append("\tinclude \"blk%d.inc\"" % k)
            elif kind == "include2":  # nested include, inner file without a final newline
                extra["/w/blk%d.inc" % k] = ("\tinclude \"blk%di.inc\"\n" % k).encode()
                extra["/w/blk%di.inc" % k] = "\n".join(block).encode()
                out.append("\tinclude \"blk%d.inc\"" % k)
            elif kind == "macro":
                macros += ["wm%d\tmacro" % k] + block + ["\tendm"]
                out.append("\twm%d" % k)
            elif kind == "rept1":
                out += ["\trept 1"] + block + ["\tendm"]
            elif kind == "irp1":
                out += ["\tirp wx%d,1" % k] + block + ["\tendm"]
            elif kind == "if1":
                out += ["\tif 1"] + block + ["\telse", "\terror \"not here\"", "\tendif"]
            elif kind == "section":
                out += ["\tsection ws%d" % k] + block + ["\tendsection ws%d" % k]
            elif kind == "phase":
                out += ["\tphase %d" % rng.choice([0, 0, 3, 16])] + block + ["\tdephase"]
            elif kind == "listing":
                out += ["\tlisting off"] + block + ["\tlisting on"]
            else:
                out += ["\tif 0", "\tfoo bar", "\tendif"] + block
            used.append(kind)
            i = j
        else:
            out.append(lines[i])
            i += 1
    # macro definitions go behind the leading cpu/padding lines
    h = 0
    while h < len(out) and out[h].split() and out[h].split()[0] in ("cpu", "padding"):
        h += 1
    out = out[:h] + macros + out[h:]
    return ("\n".join(out) + "\n").encode(), extra, used


def check_generated(sim, lines, model, knobs, variant, acc, wrap_seed=None, pred=None):
    """Run one generated program under one knob setting; returns (violations, code file bytes, nontrivial)."""
    argv = None
    for ln in lines:
        if ln.startswith("; cpu0=") and ln.split()[-1] == "option":
            argv = ["-q", "-cpu", TARGETS[ln[7:].split()[0]].get("cpuname", ln[7:].split()[0]), "a.asm"]
    if pred is not None:
        argv = (argv or ["-q", "a.asm"])[:-1] + ["p.asm", "a.asm"]
        acc["faults"]["predecessor_file"] = acc["faults"].get("predecessor_file", 0) + 1
    if wrap_seed:
        src, extra, used = wrap(lines, wrap_seed)
        for u in used:
            acc["faults"]["wrapped-in-" + u] = acc["faults"].get("wrapped-in-" + u, 0) + 1
        if pred is not None:
            extra = dict(extra, **{"/w/p.asm": PREDECESSORS[pred].encode()})
        sc = scenario(src, knobs, extra_disk=extra, argv=argv)
    else:
        src = ("\n".join(lines) + "\n").encode()
        sc = scenario(src, knobs, argv=argv, extra_disk={"/w/p.asm": PREDECESSORS[pred].encode()} if pred is not None else None)
    r, san = sim.run("asl", sc, variant)
    acc["runs"] += 1
    acc["sim_us"] += r.sim_us
    acc["shapes"].add(r.hash)
    vs = []
    cls = oracle.classify("asl", r, san)
    if cls and "/hang/" in cls:
        acc["stats"]["not_judged_budget"] = acc["stats"].get("not_judged_budget", 0) + 1
        return vs, None, False
    if cls:
        return [("C04/abnormal/" + cls, r.outcome)], None, False
    p = r.get("/w/a.p")
    if r.outcome != "exit:0" or p is None:
        acc["stats"]["rejected_by_asl"] = acc["stats"].get("rejected_by_asl", 0) + 1
        acc["last_reject"] = r.stderr[:200].decode("latin1")
        return vs, None, False
    try:
        cf = codefile.parse(p, strict=True)
    except codefile.FormatError as e:
        return [("C04/malformed-file", str(e))], p, False
    if cf.creator is None or not cf.creator.startswith(b"AS "):
        vs.append(("C04/creator-record", "creator record %r" % (cf.creator,)))
    if cf.entry != model.entry:
        vs.append(("C04/entry-record", "entry %r, source says %r" % (cf.entry, model.entry)))
    fs = file_stream(cf)
    if fs != model.stream:
        # describe the first difference
        n = min(len(fs), len(model.stream))
        i = next((i for i in range(n) if fs[i] != model.stream[i]), n)
        a = fs[i] if i < len(fs) else None
        b = model.stream[i] if i < len(model.stream) else None
        kind = "lost" if len(fs) < len(model.stream) else "extra" if len(fs) > len(model.stream) else "different"
        vs.append(("C04/bytes-%s" % kind, "file has %d bytes, source specifies %d; first difference at stream index %d: file %r vs source %r "
                   "(cpu,seg,gran,byte address,value)" % (len(fs), len(model.stream), i, a, b)))
    pidx = {pth: i for i, pth in r.index.items()}.get("/w/a.p")
    nt = probes_from_log(r, cf, pidx, acc)
    return vs, p, bool(nt)


def plan(tier, seed):
    thorough = tier == "thorough"
    n = 150000 if thorough else 4000
    per = 20
    cases = [{"gen": "prog", "seed": mix(seed, "c04", i), "n": per, "knobs": 3} for i in range(0, n, per)]
    nb = 600 if thorough else 24
    cases += [{"gen": "prog", "seed": mix(seed, "c04big", i), "n": 1, "knobs": 3, "big": True} for i in range(nb)]
    for t in corpus.tests():
        cases.append({"gen": "corpus", "test": t.name, "seed": mix(seed, "c04c", t.name), "knobs": 12 if thorough else 3})
    return cases


def explicit(lines, model_seed, knobs_list, variant, big):
    return {"kind": "explicit", "lines": lines, "knobs": knobs_list, "variant": variant}


def rebuild_model(lines):
    """Re-derive the memory model from explicit source lines (used for replay/minimisation): a tiny interpreter
    of exactly the statement forms the generator emits."""
    m = Model()
    need_org = True
    for raw in lines:
        ln = raw.strip()
        if ln.startswith("; cpu0="):
            m.cpu = ln[7:].split()[0]
            m.seg = "code"
            m.pcs.setdefault("code", 0)  # CODE starts at 0 on every target of the table
            need_org = False
            continue
        if ln == "padding off" and m.cpu == "68000p":
            m.cpu = "68000"
            continue
        if not ln or ln.startswith(";") or ln.endswith(":") or ln.startswith("listing") or ln.startswith("padding"):
            continue
        op, _, arg = ln.partition(" ")
        arg = arg.strip()
        if op == "cpu":
            if arg == "68000":
                # PADDING ON is the default (the prologue line below turns it off); re-selecting the target changes nothing
                m.cpu = m.cpu if m.cpu in ("68000", "68000p") else "68000p"
            else:
                m.cpu = arg
            m.seg = "code"
            need_org = "code" not in m.pcs
            continue
        if op == "segment":
            m.seg = arg
            need_org = arg not in m.pcs  # a segment used before keeps its counter
            continue
        if op == "org":
            m.pcs[m.seg] = int(arg)
            need_org = False
            continue
        if need_org and op != "end":
            raise ValueError("model needs an ORG after SEGMENT (target-specific initial counter)")
        if op == "end":
            m.entry = int(arg)
            continue
        t = TARGETS[m.cpu]
        if op == "align":
            n, _, fill = arg.partition(",")
            gap = (-m.pc()) % int(n)
            if fill:
                m.emit([int(fill)] * (gap * t["gran"]))
            else:
                m.reserve(gap)
            continue
        if op == "binclude":
            parts = arg.split(",")
            off = int(parts[1]) if len(parts) > 1 else 0
            ln = int(parts[2]) if len(parts) > 2 else len(BLOB) - off
            m.emit(list(BLOB[off:off + ln]))
            continue
        if arg.startswith('"') and op in (t.get("byte"), "fcc"):
            m.emit([ord(c) for c in arg[1:-1]])
            continue
        if op in ("ds.w", "ds.l"):
            apply_moto_ds(m, t, 2 if op == "ds.w" else 4, int(arg))
        elif op == t["res"]:
            m.reserve(int(arg))
        elif op == "dn" or (op in ("db", "dw") and "?" in arg) or (m.cpu == "kcpsm" and op == "db"):
            apply_intel(m, op, arg)
        elif "unit" in t and op == t["unit"][0]:
            bs = []
            for v in arg.split(","):
                bs += enc(int(v), t["unit"][1], t["unit"][2])
            m.emit(bs)
        elif op == t.get("byte"):
            if " dup " in arg:
                cnt, _, rest = arg.partition(" dup ")
                pat = [int(v) for v in rest.strip("()").split(",")]
                m.emit(pat * int(cnt))
            elif arg.startswith("["):
                cnt, _, v = arg[1:].partition("]")
                m.emit([int(v)] * int(cnt))
            else:
                m.emit([int(v) for v in arg.split(",")])
        else:
            for key in ("word", "long"):
                if key in t and op == t[key][0]:
                    bs = [0] if (t.get("pad") and m.pc() & 1) else []
                    for v in arg.split(","):
                        bs += enc(int(v), t[key][1], t[key][2])
                    m.emit(bs)
                    break
            else:
                raise ValueError("model does not know statement %r" % raw)
    return m


def run_explicit(sim, case, acc):
    lines = case["lines"]
    model = rebuild_model(lines)
    vio = []
    files = []
    for kn in case["knobs"]:
        vs, p, nt = check_generated(sim, lines, model, kn, case.get("variant", "plain"), acc, case.get("wrap"), case.get("pred"))
        vio += vs
        files.append(p)
    good = [f for f in files if f is not None]
    if len(set(good)) > 1:
        vio.append(("C04/knob-dependent-file", "same program, different code files under knob settings %s" % (case["knobs"],)))
    return vio


def run_case(sim, case):
    acc = {"runs": 0, "sim_us": 0, "shapes": set(), "keys": [], "stats": {}, "faults": {}, "probes": {}}
    if case.get("kind") == "explicit":
        vio = run_explicit(sim, case, acc)
        seen = {}
        for c, d in vio:
            seen.setdefault(c, d)
        return {"violations": [{"class": c, "detail": d} for c, d in seen.items()], "case": case, "runs": acc["runs"], "sim_us": acc["sim_us"],
                "digest": chash(sorted(acc["shapes"]))}
    if case.get("kind") == "corpus-explicit":
        return run_corpus(sim, case, acc, explicit_knobs=case["knobs"])
    out = []
    seen = set()
    sample = None
    if case["gen"] == "prog":
        rng = Rng(case["seed"])
        for _ in range(case["n"]):
            lines, model = gen_program(rng, big=case.get("big", False))
            variant = "asan" if rng.chance(0.05) else "plain"
            knobs = [{"codebuf": 512, "stdio_buf": 0, "read_chunk": 0}] + [knob_env(rng) for _ in range(case["knobs"] - 1)]
            c = {"kind": "explicit", "lines": lines, "knobs": knobs, "variant": variant}
            if not case.get("big") and rng.chance(0.4):
                c["wrap"] = 1 + rng.below(1 << 30)
            if not case.get("big") and rng.chance(0.25) and not any(l.startswith("; cpu0=") and l.endswith("default") for l in lines):
                c["pred"] = rng.below(len(PREDECESSORS))  # (a program relying on the built-in default CPU is not put behind another)
            before = dict(acc["probes"])
            vio = run_explicit(sim, c, acc)
            nt = 1 if acc["probes"] != before else 0
            acc["keys"].append((int(chash(c), 16), nt))
            for kn in knobs[1:]:
                for k2, v2 in kn.items():
                    acc["faults"]["%s=%s" % (k2, v2)] = acc["faults"].get("%s=%s" % (k2, v2), 0) + 1
            for cls, detail in vio:
                if cls not in seen:
                    seen.add(cls)
                    out.append({"class": cls, "detail": detail, "case": c, "digest": None})
            sample = {"source": lines[:14], "statements": len(lines), "bytes": len(model.stream), "knobs": knobs[1:]}
        res = {"violations": out, "runs": acc["runs"], "sim_us": acc["sim_us"], "shapes": sorted(acc["shapes"]), "keys": acc["keys"],
               "stats": acc["stats"], "faults": acc["faults"], "probes": acc["probes"], "sample": sample}
        return res
    if case["gen"] == "corpus":
        return run_corpus(sim, case, acc)
    return {"machinery_error": "unknown generator"}


def run_corpus(sim, case, acc, explicit_knobs=None):
    t = corpus.by_name(case["test"])
    rng = Rng(case.get("seed", 1))
    knobs = explicit_knobs or ([{"codebuf": 512, "stdio_buf": 0, "read_chunk": 0}] + [
        {"codebuf": rng.choice(KNOB_CODEBUF), "stdio_buf": rng.choice(KNOB_STDIO), "read_chunk": rng.choice([0, 0, 64, 100])}
        for _ in range(case["knobs"] - 1)])
    vio = []
    ref = None
    for kn in knobs:
        sc = corpus.asl_scenario(t, want_events=0, stdio_buf=kn["stdio_buf"], read_chunk=kn["read_chunk"], max_events=1400000, cpu=60)
        sc["env"] = {"LANG": "C", "ASL_VERIF_CODEBUF": str(kn["codebuf"])}
        r, san = sim.run("asl", sc, "plain")
        acc["runs"] += 1
        acc["sim_us"] += r.sim_us
        acc["shapes"].add(r.hash)
        acc["keys"].append((int(chash([t.name, kn]), 16), 1 if kn != knobs[0] else 0))
        cls = oracle.classify("asl", r, san)
        if cls and "/hang/" in cls:
            acc["stats"]["not_judged_budget"] = acc["stats"].get("not_judged_budget", 0) + 1
            continue
        p = r.get("/w/%s.p" % t.name)
        if cls or r.outcome != "exit:0" or p is None:
            vio.append(("C04/corpus-fails-under-knob", "%s under %s: %s %s" % (t.name, kn, r.outcome, cls)))
            continue
        try:
            cf = codefile.parse(p, strict=True)
        except codefile.FormatError as e:
            vio.append(("C04/malformed-file", "%s under %s: %s" % (t.name, kn, e)))
            continue
        recs = [(rc.cpu, rc.seg, rc.gran, rc.start, bytes(rc.data)) for rc in cf.records if rc.length]
        if ref is None:
            ref = (recs, cf.entry)
            r2, san2 = sim.run("p2bin", corpus.p2bin_scenario(t.name, p), "plain")
            acc["runs"] += 1
            if r2.get("/w/%s.bin" % t.name) != t.ori:
                vio.append(("C04/corpus-image-differs", "%s: p2bin rendering differs from the trusted .ori" % t.name))
        elif (recs, cf.entry) != ref:
            vio.append(("C04/knob-dependent-file", "%s: records differ between %s and %s" % (t.name, knobs[0], kn)))
    seen = {}
    for c, d in vio:
        seen.setdefault(c, d)
    ecase = {"kind": "corpus-explicit", "test": t.name, "knobs": knobs}
    return {"violations": [{"class": c, "detail": d, "case": ecase} for c, d in seen.items()], "case": ecase, "runs": acc["runs"], "sim_us": acc["sim_us"],
            "shapes": sorted(acc["shapes"]), "keys": acc["keys"], "stats": acc["stats"], "faults": {}, "probes": acc["probes"],
            "sample": {"golden": t.name, "knobs": knobs[1:]}, "digest": None}


def minimise(sim, case, vclass):
    if case.get("kind") != "explicit":
        return case

    def holds(lines, knobs):
        try:
            c = {"kind": "explicit", "lines": lines, "knobs": knobs, "variant": case.get("variant", "plain")}
            if case.get("wrap"):
                c["wrap"] = case["wrap"]
            if case.get("pred") is not None:
                c["pred"] = case["pred"]
            return vclass in [v["class"] for v in run_case(sim, c)["violations"]]
        except Exception:
            return False

    knobs = case["knobs"]
    lines = case["lines"]
    if vclass != "C04/knob-dependent-file":
        for kn in knobs:
            if holds(lines, [kn]):
                knobs = [kn]
                break
    # keep structural lines (cpu/segment/padding) to stay valid; ddmin over the rest
    lines = ddmin(lines, lambda ls: holds(ls, knobs), max_tests=200)
    out = {"kind": "explicit", "lines": lines, "knobs": knobs, "variant": case.get("variant", "plain")}
    if case.get("wrap"):
        out["wrap"] = case["wrap"]
    if case.get("pred") is not None:
        out["pred"] = case["pred"]
    return out
