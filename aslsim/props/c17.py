"""C17 - code output is deterministic and independent of reporting options.

Every source of nondeterminism of a real run is a simulator seam here: clock, environment (LANG, ASCMD,
key file), cwd / relative vs absolute paths / output path, stdout kind, heap and stack contents and
addresses, stdio buffer sizes and read chunking.  One reference run per program; perturbed runs must give
the same code file; runs differing only in memory fill must agree on every output byte; runs differing
only in the clock must agree on listing/MAP/share modulo the date/time stamp.
"""
import re

from .. import corpus, oracle, pool
from ..driver import chash
from ..rng import Rng, mix
from ..sim import scenario_from_json, scenario_to_json

ID = "C17"
LEVEL = "exploration"
VARIANTS = ("plain", "asan")
EVAL_RUNS = True
RULE = ("each golden program (copied to a writable directory) and generated multi-segment programs: 1 reference run + "
        "k perturbed runs; perturbation dimensions: report-option subset (exactly the property's list), option "
        "placement argv/ASCMD/ASCMD=@key/@key, LANG/LC_ALL, cwd+relative/absolute paths, -o elsewhere, stdout kind, "
        "USEANSI, clock start/step incl. midnight roll-over, heap/stack fill byte, heap address padding, stdio "
        "buffer size, read chunking, code-buffer knob; non-trivial = a perturbed run differing from its reference in "
        ">=2 dimensions; distinct by scenario content hash")
COMPONENTS = {"real": ["asl: all repository code (plain build with glibc M_PERTURB fill; ASan build on a sample)"],
              "stubbed": ["storage below FILE*", "clock (time/gettimeofday/localtime)", "environment", "cwd",
                          "stdout kind (fstat)", "heap fill / stack scribble"],
              "untouched": ["glibc stdio", "libm", "glibc malloc"]}
ASSUMPTIONS = ["-h/-SPLITBYTE only for sources without \\{", "sources mentioning DATE/TIME compared only under equal clock",
               "message language switched through LANG/LC_ALL names C, de_DE, en_US (no codeset suffix: a different "
               "code page is a different input encoding)",
               "date/time stamp masked by pattern (dd/mm/yy, dd.mm.yyyy, hh:mm:ss) on both sides"]

REPORT_OPTS = [["-L"], ["-l"], ["-u"], ["-C"], ["-s"], ["-I"], ["-g", "MAP"], ["-g", "NOICE"], ["-g", "ATMEL"],
               ["-t", "0"], ["-t", "127"], ["-t", "5"], ["-x"], ["-x", "-x"], ["-n"], ["-A"], ["-r"], ["-gnuerrors"],
               ["-listradix", "2"], ["-listradix", "8"], ["-listradix", "10"], ["-listradix", "36"], ["-P"], ["-M"],
               ["-E", "!1"], ["-E", "err.log"], ["-E", "!2"], ["-L", "-olist", "/w/out/other.lst"], ["-noquiet"],
               # options that count when repeated (quiet level 2, extended error level 2)
               ["-q", "-q"], ["-quiet"], ["-q", "-quiet", "-q"], ["-x", "-x", "-x"]]
HEX_OPTS = [["-h"], ["-splitbyte", "."]]
DATE_RE = re.compile(rb"\d{1,2}[/.]\d{1,2}[/.]\d{2,4}|\d{1,2}:\d{2}:\d{2}")


def local_disk(t, d):
    """Copy of the golden test's directory under the writable directory d."""
    import os
    from .. import build
    disk = {"%s/%s.asm" % (d, t.name): t.src}
    tdir = os.path.join(build.repo_dir(), "tests", t.name)
    for f in t.incs:
        p = os.path.join(tdir, f)
        if os.path.isfile(p):
            disk["%s/%s" % (d, f)] = open(p, "rb").read()
    return disk


GEN_CPUS = [("z80", "db", "dw", "ds"), ("8051", "db", "dw", "ds"), ("6502", "byt", "adr", "dfs"),
            ("6809", "fcb", "fdb", "rmb")]


def gen_program(rng):
    cpu, db, dw, ds = rng.choice(GEN_CPUS)
    L = ["\tcpu %s" % cpu, "\torg %d" % rng.choice([0, 256, 32768])]
    L += ["m1\tmacro a,b", "\t%s a,b" % db, "\tendm", "v1\tequ %d" % rng.randint(1, 100), "v2\tset v1+100"]
    for i in range(rng.randint(3, 25)):
        k = rng.below(10)
        if k == 9:
            # statements that steer the reports from inside the source: they must not reach the code either
            L.append(rng.choice(["\tlisting off", "\tlisting on", "\tlisting noskipped", "\tlisting purecode", "\tmacexp off", "\tmacexp on",
                                 "\tmacexp_dft noif,nomacro", "\tpage 10", "\tnewpage", "\ttitle \"t%d\"" % i, "\tprtinit \"\\e[1m\"",
                                 "\tprtexit \"\\e[0m\"", "\tnewpage 2", "\tpage 0", "\tlisting on\n\tdb liston", "\tsave\n\tlisting off\n\trestore"]
                                ).replace("\tdb ", "\t%s " % db))
        elif k == 7:
            # conditional assembly on the assembler's own bookkeeping (usage / definition flags, which the cross
            # reference, usage and symbol reports also read), placed before or after the first reference
            sym = rng.choice(["v1", "v2", "l%d" % rng.randint(0, 30), "u%d" % i])
            L.append("u%d\tequ %d" % (i, i))
            if rng.chance(0.5):
                # text for the console: evaluating it touches the symbols it mentions, whoever is listening
                L.append(rng.choice(["\tmessage \"u is \\{u%d}\"", "\tmessage \"v1+u=\\{v1+u%d}\"", "\twarning \"w \\{u%d}\""]) % i)
            L.append("\t%s %s\n\t%s %d\n\telse\n\t%s %d,%d\n\tendif" % (rng.choice(["ifused", "ifnused", "ifdef", "ifndef"]), sym, db, rng.below(256), db, rng.below(256), rng.below(256)))
            if rng.chance(0.5):
                L.append("\t%s u%d" % (dw, i))
        elif k == 8:
            L.append("\t%s symtype(v1),symtype(l%d),defined(l%d)" % (db, rng.randint(0, 30), rng.randint(0, 30)))
        elif k == 0:
            L.append("l%d:\t%s %d,%d" % (i, db, rng.below(256), rng.below(256)))
        elif k == 1:
            L.append("\t%s l%d" % (dw, rng.randint(0, 30)) if rng.chance(0.5) else "\t%s v1+%d" % (dw, i))
        elif k == 2:
            L.append("\t%s %d" % (ds, rng.randint(1, 20)))
        elif k == 3:
            L.append("\tm1 %d,v2" % rng.below(200))
        elif k == 4:
            L.append("\tif v1>%d\n\t%s 1\n\telse\n\t%s 2\n\tendif" % (rng.below(200), db, db))
        elif k == 5:
            L.append("\trept %d\n\t%s %d\n\tendm" % (rng.randint(1, 4), db, rng.below(256)))
        else:
            L.append("\t%s \"txt%d\"" % (db, i))
    if rng.chance(0.25):
        # many (flat) includes of a tiny file: per-pass include bookkeeping near the nesting limit of 200
        for _ in range(rng.choice([1, 3, 60, 99, 101, 120, 199, 210])):
            L.append("\tinclude \"blk.inc\"")
    for i in range(31):
        if not any(l.startswith("l%d:" % i) for l in L):
            L.append("l%d:" % i)
    if rng.chance(0.12):
        # several hundred nameless temporary labels: their internal names carry a running number
        jmp = {"z80": "jp", "8051": "ljmp", "6502": "jmp", "6809": "jmp"}[cpu]
        n = rng.choice([255, 256, 257, 300])
        L += ["+\t%s %d" % (db, i & 255) for i in range(n)] + ["\t%s +" % jmp, "\t%s ++" % jmp, "\t%s -" % jmp, "+\t%s 1" % db, "+\t%s 2" % db]
    if cpu == "8051" and rng.chance(0.35):
        # a visit to another segment inside a SAVE / RESTORE frame; the code behind it carries on in CODE
        for _ in range(rng.randint(1, 2)):
            pos = rng.randint(5, len(L))
            L[pos:pos] = ["\tsave", "\tsegment %s" % rng.choice(["data", "xdata", "idata"]), "\t%s %d" % (ds, rng.randint(1, 4)), "\trestore",
                          "\t%s %d" % (db, rng.below(256))]
    if rng.chance(0.3):
        # a large symbol table built from sections that export labels (GLOBAL: a second, qualified entry per label), read
        # through forward references and through IFDEF-selected macro variants: how the table is stored must not matter
        n = rng.randint(20, 120)
        names = []
        for i in range(n):
            names.append("".join(rng.choice("abcdefghijklmnopqrstuvwxyz") for _ in range(rng.randint(2, 7))) + "%d" % i)
        kinds = [rng.choice(["equ", "label", "global", "global", "public"]) for _ in names]
        # GLOBAL makes the label known outside under the qualified name <section>_<label>
        B = ["\t%s %s" % (dw, "sc%s_%s" % (nm, nm) if kd == "global" else nm) for nm, kd in zip(names, kinds) if rng.chance(0.5)]
        for i, nm in enumerate(names):
            r = {"equ": 0, "label": 1}.get(kinds[i], 2)
            if r == 0:
                B.append("%s\tequ %d" % (nm, i))
            elif r == 1:
                B.append("%s:\t%s %d" % (nm, db, i & 255))
            else:
                B += ["\tsection sc%s" % nm, "\t%s %s" % (kinds[i], nm), "%s:\t%s %d" % (nm, db, i & 255),
                      "\tendsection"]
            if rng.chance(0.1):
                B += ["\tifdef %s" % rng.choice(names[:i + 1]), "mv%d\tmacro\n\t%s 1\n\tendm" % (i, db), "\telse",
                      "mv%d\tmacro\n\t%s 2,3\n\tendm" % (i, db), "\tendif", "\tmv%d" % i]
        L += B
    if rng.chance(0.3):
        # character constants kept in symbols and used as strings later: their type must not depend on who looks at them
        pos = rng.randint(5, len(L))
        ch = rng.choice("BQxz")
        L[pos:pos] = ["md%s\tequ '%s'" % (ch, ch), "sep%s\tset ', '" % ch, "\tswitch md%s\n\tcase '%s'\n\t%s 1\n\telsecase\n\t%s 2,3\n\tendcase" % (ch, ch, db, db),
                      "\t%s md%s+'C'" % (db, ch), "\t%s \"x\"+sep%s+\"y\"" % (db, ch), "ev%s\teval 'ab'" % ch, "\t%s ev%s+\"c\"" % (db, ch)]
    if rng.chance(0.3):
        # preprocessor definitions whose meaning changes in the course of the file
        pos = rng.randint(5, len(L))
        L[pos:pos] = ["#define LVL %d" % rng.below(200), "\t%s LVL" % db, "#undef LVL", "#define LVL %d" % rng.below(200), "\t%s LVL" % db]
    if rng.chance(0.4):
        # values beyond 32 bits and negative ones among the shared symbols
        L.append("wide1\tequ %d\nwide2\tequ -%d\nwide3\tequ %d" % ((1 << 32) + rng.below(1 << 36), 1 + rng.below(1000), (1 << 40) - 1 - rng.below(5)))
        L.append("\tshared v1,l3,wide1,wide2,wide3")
    elif rng.chance(0.3):
        L.append("\tshared v1,l3")
    return "\n".join(L) + "\n"


def base_case(rng, tests):
    """Returns dict(name, dir files, flags) of a program; half golden, some generated."""
    if rng.chance(0.85):
        t = rng.choice(tests)
        return {"name": t.name, "flags": list(t.flags), "disk": local_disk(t, "/w/t"), "golden": True,
                "mentions_clock": bool(re.search(rb"\b(date|time)\b", t.src, re.I)), "has_brace": b"\\{" in t.src or b"\\{" in b"".join(
                    v for k, v in local_disk(t, "/w/t").items())}
    src = gen_program(rng).encode()
    return {"name": "gen", "flags": [], "disk": {"/w/t/gen.asm": src, "/w/t/blk.inc": b"\tnop\n"}, "golden": False, "mentions_clock": False,
            "has_brace": b"\\{" in src}


def make_scenario(b, rng, ref=False, force=None):
    """Build a scenario for program b; returns (scenario, dims) where dims lists what differs from the reference."""
    name = b["name"]
    dims = []
    opts = []
    groups = []
    noquiet = False
    env = {"LANG": "C"}
    sc = dict(cwd="/w/t", dirs=["/w", "/w/t", "/w/out"], clock=946684800, step_us=1000, fill=0xA5, heap_pad=0, stdout_kind=1,
              max_events=1400000, cpu=60)
    src_arg = "%s.asm" % name
    out_p = "/w/t/%s.p" % name
    inc = ["-i", "/sim/inc"]
    place, move_all, key_shape, key_lines = 0, False, 0, 0
    if not ref:
        f = force or {}
        # report options
        if f.get("report", rng.chance(0.8)):
            sel = []
            big = sum(v.count(b"\n") for v in b["disk"].values()) > 8000
            for o in REPORT_OPTS:
                if rng.chance(0.18):
                    if big and o[0] == "-g":
                        continue  # line-info bookkeeping is quadratic in the number of lines (minutes for t_m16)
                    if o[0] == "-E" and any(x[0] == "-E" for x in sel):
                        continue
                    if o[0] == "-g" and any(x[0] == "-g" for x in sel):
                        continue
                    if o[0] == "-listradix" and any(x[0] == "-listradix" for x in sel):
                        continue
                    if o[0] == "-t" and any(x[0] == "-t" for x in sel):
                        continue
                    sel.append(o)
            if ["-A"] not in sel and any(b"\tsection sc" in v for v in b["disk"].values()) and rng.chance(0.5):
                sel.append(["-A"])  # big symbol tables are what the balanced tree is for
            if not b["has_brace"] and rng.chance(0.2):
                sel.append(rng.choice(HEX_OPTS))
            if sel:
                dims.append("report-opts")
            groups = sel
            if ["-noquiet"] in sel:
                sel.remove(["-noquiet"])
                dims.append("not-quiet")
                noquiet = True
            for o in sel:
                opts += o
        # option placement
        # option placement (applied when argv is put together below, once the include paths are known)
        move_all = rng.chance(0.5) and not any((" " in x) or not x for x in b["flags"])
        place = rng.below(4) if (opts or move_all) else 0
        key_shape = rng.below(4)
        key_lines = rng.below(2)
        # language
        lang = rng.choice(["C", "C", None, "de_DE", "en_US"])
        if f.get("keep_lang"):
            lang = "C"
        if lang != "C":
            dims.append("lang")
            env.pop("LANG")
            if lang:
                env["LC_ALL" if rng.chance(0.3) else "LANG"] = lang
        # cwd / paths
        pm = rng.below(4)
        if pm == 1:
            sc["cwd"] = "/w"
            src_arg = "t/%s.asm" % name
            inc = ["-i", "/sim/inc", "-i", "/w/t"]
            dims.append("cwd")
        elif pm == 2:
            sc["cwd"] = "/w/out"
            src_arg = "/w/t/%s.asm" % name
            inc = ["-i", "/sim/inc", "-i", "/w/t"]
            dims.append("cwd-abs")
        elif pm == 3:
            src_arg = "./%s.asm" % name
            dims.append("dot-path")
        if sc["cwd"] != "/w/t" and rng.chance(0.6):
            # files of the same names as the program's include files lie in the working directory: they are not the ones meant
            for k in b["disk"]:
                if k.startswith("/w/t/") and "/" not in k[5:] and k != "/w/t/%s.asm" % name:
                    sc.setdefault("disk", {})[sc["cwd"] + "/" + k[5:]] = b"\terror \"decoy file in the working directory\"\n\tdb 255\n"
            dims.append("decoy-includes-in-cwd")
        if rng.chance(0.3):
            out_p = "/w/out/%s.p" % name
            dims.append("outpath")
        # console
        sk = rng.below(3)
        if sk != 1:
            sc["stdout_kind"] = sk
            dims.append("stdout-kind")
        if rng.chance(0.15):
            env["USEANSI"] = rng.choice(["y", "n"])
            dims.append("useansi")
        # clock
        if not f.get("keep_clock") and rng.chance(0.6):
            sc["clock"] = rng.choice([631152000 + rng.below(1400000000), 946684799, 1234567890, 2145916799, 946771199])
            sc["step_us"] = rng.choice([0, 1, 1000, 500000, 1000000])
            dims.append("clock")
        # memory contents / addresses
        if rng.chance(0.7):
            sc["fill"] = rng.choice([0, 0xFF, 0x55, 0xAA, 1, 0x80, 0x7F, rng.below(256)])
            sc["heap_pad"] = rng.below(40)
            dims.append("memory")
        # legal environment behaviours
        if rng.chance(0.3):
            sc["stdio_buf"] = rng.choice([1, 16, 512, 4096, 65536])
            dims.append("stdio-buf")
        if rng.chance(0.3):
            small = sum(len(v) for v in b["disk"].values()) < 30000
            sc["read_chunk"] = rng.choice([1, 7, 100, 4095] if small else [64, 100, 4095])
            dims.append("read-chunk")
        if rng.chance(0.2):
            env["ASL_VERIF_CODEBUF"] = str(rng.choice([1, 2, 3, 7, 64, 511, 513, 4096]))
            dims.append("codebuf")
    front = list(b["flags"]) + ([] if noquiet else ["-q"]) + inc
    if not ref and place:
        # the place an option is given: argv, ASCMD, a key file named in ASCMD, a key file named in argv.  Either only
        # the report options move, or every option does (the program's own code-affecting ones, -q and the include paths)
        placed = ([front] if move_all and front else []) + (groups if groups else ([opts] if opts else []))
        if move_all:
            front = []
            dims.append("all-opts-moved")

        def keytext(lines):
            # legal key-file shapes: trailing newline or not, blank lines, leading blanks
            txt = "\n".join(lines)
            if key_shape == 0:
                return txt + "\n"
            if key_shape == 1:
                return txt  # last line not newline-terminated
            if key_shape == 2:
                return "\n" + txt.replace("\n", "\n\n") + "\n"
            return "  " + txt.replace("\n", "\n  ") + "\n"
        flat = [x for g in placed for x in g]
        lines = [" ".join(g) for g in placed] if key_lines else [" ".join(flat)]
        opts = []
        if place == 1:
            env["ASCMD"] = " ".join(flat)
            dims.append("opts-via-ASCMD")
        elif place == 2:
            sc.setdefault("disk", {})["/w/t/opts.key"] = keytext(lines).encode()
            env["ASCMD"] = "@/w/t/opts.key"
            dims.append("opts-via-ASCMD-keyfile")
        else:
            sc.setdefault("disk", {})["/w/t/opts.key"] = keytext(lines).encode()
            opts = ["@/w/t/opts.key"]
            dims.append("opts-via-@key")
    sc["env"] = env
    sc["argv"] = front + opts + [src_arg, "-o", out_p, "-shareout", out_p[:-2] + ".h"]
    d = dict(b["disk"])
    d.update(sc.get("disk", {}))
    sc["disk"] = d
    return sc, dims, out_p


def mask(b):
    return DATE_RE.sub(b"<STAMP>", b)


def outputs(r):
    return {k: v for k, v in r.files.items() if v is not None and k not in ("<stdin>",) and not k.endswith(".asm")
            and not k.endswith(".key")}


def plan(tier, seed):
    thorough = tier == "thorough"
    tests = corpus.tests()
    cases = []
    per = 60 if thorough else 9
    for t in tests:
        for j in range(0, per, 4 if thorough else 3):
            cases.append({"gen": "prog", "test": t.name, "seed": mix(seed, "c17", t.name, j), "k": min(4 if thorough else 3, per - j)})
    ng = 4000 if thorough else 200
    for i in range(0, ng, 10):
        cases.append({"gen": "gen", "seed": mix(seed, "c17g", i), "n": 10, "k": 3})
    return cases


def check_program(sim, b, rng, k, acc):
    vio = []
    variant = "asan" if rng.chance(0.08) else "plain"
    sc0, _, p0 = make_scenario(b, rng, ref=True)
    r0, san0 = sim.run("asl", sc0, variant)
    acc["runs"] += 1
    acc["sim_us"] += r0.sim_us
    cls = oracle.classify("asl", r0, san0)
    if cls:
        if "/hang/" not in cls:
            vio.append(("C17/abnormal/" + cls, "reference run of %s: %s" % (b["name"], r0.outcome),
                        {"kind": "single", "scenario": scenario_to_json(sc0), "variant": variant}, r0.digest()))
        acc["stats"]["reference_not_ok"] = acc["stats"].get("reference_not_ok", 0) + 1
        return vio
    if r0.outcome != "exit:0" or r0.get(p0) is None:
        # a reference that produces no code file is still a reference: no perturbed run may produce one
        acc["stats"]["reference_without_code"] = acc["stats"].get("reference_without_code", 0) + 1
    ref_p = r0.get(p0)
    for i in range(k):
        sc, dims, pth = make_scenario(b, rng)
        r, san = sim.run("asl", sc, variant)
        acc["runs"] += 1
        acc["sim_us"] += r.sim_us
        acc["shapes"].add(r.hash)
        acc["keys"].append((int(chash(scenario_to_json(sc)), 16), 1 if len(dims) >= 2 else 0))
        for d in dims:
            acc["faults"][d] = acc["faults"].get(d, 0) + 1
        case = {"kind": "pair", "a": scenario_to_json(sc0), "b": scenario_to_json(sc), "pa": p0, "pb": pth,
                "rule": "code", "variant": variant, "clock_sensitive": b["mentions_clock"], "dims": dims}
        cls = oracle.classify("asl", r, san)
        if cls and "/hang/" in cls:
            # the simulator's own event/CPU budget (e.g. byte-wise reads of a large source): not judged
            acc["stats"]["not_judged_budget"] = acc["stats"].get("not_judged_budget", 0) + 1
            continue
        if cls:
            vio.append(("C17/abnormal/" + cls, "dims=%s" % dims, case, r.digest()))
            continue
        p = r.get(pth)
        if b["mentions_clock"] and "clock" in dims:
            acc["stats"]["skipped_clock_sensitive"] = acc["stats"].get("skipped_clock_sensitive", 0) + 1
        elif p != ref_p:
            what = ("missing (exit %s)" % r.outcome if p is None else "exists (%d bytes) although the reference run produced none (%s)" % (len(p), r0.outcome)
                    if ref_p is None else "differs (%d vs %d bytes)" % (len(p), len(ref_p)))
            vio.append(("C17/code-differs/" + "+".join(sorted(dims)) if len(dims) <= 2 else "C17/code-differs/multi",
                        "%s: code file %s under dims=%s" % (b["name"], what, dims), case, r.digest()))
        # (2) same scenario, other memory contents: every output byte equal
        if i == 0:
            sc2 = dict(sc)
            sc2["fill"] = (sc.get("fill", 0xA5) ^ 0xFF) & 0xFF
            sc2["heap_pad"] = sc.get("heap_pad", 0) + 7
            r2, san2 = sim.run("asl", sc2, variant)
            acc["runs"] += 1
            acc["faults"]["memory-pair"] = acc["faults"].get("memory-pair", 0) + 1
            o1, o2 = outputs(r), outputs(r2)
            if (r.outcome, o1) != (r2.outcome, o2):
                diff = sorted(k2 for k2 in set(o1) | set(o2) if o1.get(k2) != o2.get(k2))
                vio.append(("C17/memory-dependent-output", "%s: outputs %s differ between heap/stack fills" % (b["name"], diff),
                            {"kind": "pair", "a": scenario_to_json(sc), "b": scenario_to_json(sc2), "rule": "all", "variant": variant}, r2.digest()))
        # (3) same scenario, other clock: outputs equal modulo stamp
        if i == 1 and not b["mentions_clock"]:
            sc3 = dict(sc)
            sc3["clock"] = sc.get("clock", 946684800) + rng.choice([1, 59, 3600, 86400, 86400 * 365, 1000000007])
            r3, san3 = sim.run("asl", sc3, variant)
            acc["runs"] += 1
            acc["faults"]["clock-pair"] = acc["faults"].get("clock-pair", 0) + 1
            o1 = {k2: mask(v) for k2, v in outputs(r).items()}
            o3 = {k2: mask(v) for k2, v in outputs(r3).items()}
            if (r.outcome, o1) != (r3.outcome, o3):
                diff = sorted(k2 for k2 in set(o1) | set(o3) if o1.get(k2) != o3.get(k2))
                vio.append(("C17/clock-dependent-output", "%s: outputs %s differ beyond the date/time stamp" % (b["name"], diff),
                            {"kind": "pair", "a": scenario_to_json(sc), "b": scenario_to_json(sc3), "rule": "masked", "variant": variant}, r.digest()))
    return vio


def run_case(sim, case):
    acc = {"runs": 0, "sim_us": 0, "shapes": set(), "keys": [], "stats": {}, "faults": {}}
    if case.get("kind") in ("pair", "single"):
        v = case.get("variant", "plain")
        if case["kind"] == "single":
            sc = scenario_from_json(case["scenario"])
            r, san = sim.run("asl", sc, v)
            cls = oracle.classify("asl", r, san)
            return {"violations": [{"class": "C17/abnormal/" + cls, "detail": r.outcome}] if cls else [], "case": case,
                    "digest": r.digest(), "runs": 1}
        a, b = scenario_from_json(case["a"]), scenario_from_json(case["b"])
        ra, sa = sim.run("asl", a, v)
        rb, sb = sim.run("asl", b, v)
        vs = []
        cls = oracle.classify("asl", rb, sb)
        if cls and "/hang/" in cls:
            cls = None
            rb = ra
        if cls:
            vs.append({"class": "C17/abnormal/" + cls, "detail": rb.outcome})
        elif case["rule"] == "code":
            pa, pb = ra.get(case["pa"]), rb.get(case["pb"])
            if pa != pb:
                dims = case.get("dims", [])
                vs.append({"class": "C17/code-differs/" + "+".join(sorted(dims)) if len(dims) <= 2 else "C17/code-differs/multi",
                           "detail": "code file differs"})
        elif case["rule"] == "all":
            if (ra.outcome, outputs(ra)) != (rb.outcome, outputs(rb)):
                vs.append({"class": "C17/memory-dependent-output", "detail": "outputs differ"})
        elif case["rule"] == "masked":
            oa = {k: mask(x) for k, x in outputs(ra).items()}
            ob = {k: mask(x) for k, x in outputs(rb).items()}
            if (ra.outcome, oa) != (rb.outcome, ob):
                vs.append({"class": "C17/clock-dependent-output", "detail": "outputs differ beyond stamp"})
        return {"violations": vs, "case": case, "digest": rb.digest(), "runs": 2}
    rng = Rng(case["seed"])
    tests = corpus.tests()
    vio = []
    if case["gen"] == "prog":
        t = corpus.by_name(case["test"])
        b = {"name": t.name, "flags": list(t.flags), "disk": local_disk(t, "/w/t"), "golden": True,
             "mentions_clock": bool(re.search(rb"\b(date|time)\b", t.src, re.I)), "has_brace": False}
        b["has_brace"] = any(b"\\{" in v for v in b["disk"].values())
        vio += check_program(sim, b, rng, case["k"], acc)
        sample = {"program": t.name, "k": case["k"]}
    else:
        for _ in range(case["n"]):
            src = gen_program(rng).encode()
            b = {"name": "gen", "flags": [], "disk": {"/w/t/gen.asm": src, "/w/t/blk.inc": b"\tnop\n"}, "golden": False, "mentions_clock": False, "has_brace": False}
            vio += check_program(sim, b, rng, case["k"], acc)
        sample = {"generated_program": src.decode()[:400]}
    seen = set()
    out = []
    for cls, detail, c, dg in vio:
        if cls not in seen:
            seen.add(cls)
            out.append({"class": cls, "detail": detail, "case": c, "digest": dg})
    return {"violations": out, "runs": acc["runs"], "sim_us": acc["sim_us"], "shapes": sorted(acc["shapes"]), "keys": acc["keys"],
            "stats": acc["stats"], "faults": acc["faults"], "sample": sample}


def minimise(sim, case, vclass):
    """Drop perturbation dimensions of scenario b that are not needed (options first)."""
    if case.get("kind") != "pair":
        return case
    b = scenario_from_json(case["b"])

    def holds(b2):
        c = dict(case)
        c["b"] = scenario_to_json(b2)
        return vclass in [v["class"] for v in run_case(sim, c)["violations"]]

    argv = list(b["argv"])
    i = 0
    while i < len(argv):
        a = argv[i]
        if a.startswith("-") and a not in ("-o", "-i", "-shareout", "-q", "-cpu", "-D", "-alias") and (i == 0 or argv[i - 1] not in ("-o", "-i", "-shareout", "-cpu", "-D", "-alias")):
            step = 2 if a in ("-g", "-t", "-listradix", "-E", "-splitbyte") and i + 1 < len(argv) else 1
            cand = argv[:i] + argv[i + step:]
            b2 = dict(b)
            b2["argv"] = cand
            if holds(b2):
                argv = cand
                b = b2
                continue
        i += 1
    for key, dflt in (("fill", 0xA5), ("heap_pad", 0), ("stdio_buf", 0), ("read_chunk", 0), ("stdout_kind", 1), ("clock", 946684800), ("step_us", 1000)):
        if b.get(key, dflt) != dflt:
            b2 = dict(b)
            b2[key] = dflt
            if holds(b2):
                b = b2
    c = dict(case)
    c["b"] = scenario_to_json(b)
    return c
