"""C02 - exit status, code file and reported errors always agree.

The oracle works on the recorded history of one simulated asl process only: the ordered event log
(opens of the source files = file/pass boundaries, writes to the diagnostics channel, creates/unlinks),
the final disk and the exit status.  The fatal leg is reached through I/O faults on output files
(fault enumeration over every open/write/seek/close of code, listing, share and macro output files),
missing include files, FATAL and -maxerrors; stale outputs and multi-file runs are part of the workload.
"""
import re

from .. import oracle, pool
from ..driver import chash, ddmin
from ..rng import Rng, mix
from ..sim import (ACT_ERRNO, CLS_CODE, CLS_INC, CLS_LIST, CLS_MAC, CLS_MAP, CLS_SHARE, CLS_SOURCE, EV_CLOSE, EV_OPEN, EV_READ, EV_SEEK, EV_WRITE,
                   scenario_from_json, scenario_to_json)

ID = "C02"
LEVEL = "exploration"
VARIANTS = ("plain", "asan")
EVAL_RUNS = True
RULE = ("seeded workloads: 6502 sources with planted errors (unknown instruction, operand count, range, undefined "
        "symbol, ERROR), warnings, FATAL, EXPECT-wrapped errors, forward references (>=2 passes), counts from "
        "{0,1,2,3,255,256,65535,65536,65537,131072} and small random; options from -Werror -maxerrors -x -n -q -w -E "
        "-L -gnuerrors; 1-3 sources per invocation; stale .p/.lst/.inc on disk; plus enumeration of one I/O fault "
        "(ENOSPC/EIO/EACCES) at every open/write/seek/close of every output file of fixed scenarios. non-trivial = "
        ">=1 diagnostic or >=1 fired fault; distinct by scenario content hash")
COMPONENTS = {"real": ["asl: all repository code"],
              "stubbed": ["storage below FILE* (in-memory disk with fault plan)", "clock", "environment", "cwd"],
              "untouched": ["glibc stdio", "libm"]}
ASSUMPTIONS = ["diagnostic lines are recognised in native and GNU format with LANG=C; generated sources never contain the marker strings",
               "no fault is placed on the diagnostics channel itself",
               "a run whose disk budget or event budget is exhausted is not judged"]

ENOSPC, EIO, EACCES = 28, 5, 13
FATAL_MARKS = (b"fatal error, assembly terminated", b"too many errors, assembly terminated")
RE_NATIVE = re.compile(rb"^> > > (.+?): (error|warning)( #\d+)?: ")
# a diagnostic issued after the source has been closed (end-of-pass checks) carries the position INTERNAL, no line
RE_GNU = re.compile(rb"^(?:([^\s>][^\s:]*):(\d+)(:\d+)?|INTERNAL)( #\d+)?: (warning( #\d+)?: )?")
RE_SUM_ERR = re.compile(rb"^\s*(\d+) errors?\s*$")
RE_SUM_WARN = re.compile(rb"^\s*(\d+) warnings?\s*$")


# ------------------------------------------------------------------ workload
def gen_source(rng, idx, big=None):
    """Returns (source text, meta).  meta: planted counts (for the evidence only; the oracle never uses them)."""
    ne = rng.choice([0, 0, 0, 1, 2, 3, rng.randint(0, 12)])
    nw = rng.choice([0, 0, 1, 2, 3, rng.randint(0, 6)])
    if big is not None:
        ne, nw = big
    fwd = rng.chance(0.5)
    fatal = rng.chance(0.07)
    nexp = rng.choice([0, 0, 0, 1, 2])
    L = ["\tcpu 6502"]
    if fwd:
        L.append("\tjmp fwd%d" % idx)
    body = ["\tnop"] * rng.randint(1, 4)
    kinds = ["\tfoo%d 1", "\tlda #%d+1000", "\tlda", "\terror \"planted %d\"", "\tlda #undef%d",
             # diagnostics raised inside expansions (one per iteration / call)
             "em%d\tmacro\n\tfoo%d 1\n\tendm\n\tem%d", "\trept 2\n\tlda #%d+1000\n\tendm", "\tirp x%d,1,2,3\n\tlda\n\tendm",
             "wm%d\tmacro\n\twarning \"in macro\"\n\tendm\n\twm%d\n\twm%d", "\tbne *+%d+300", "l%d:\nl%d:",
             "\tif undefined%d\n\tnop\n\tendif", "\tdfs -%d-1", "\tbyt 1/0"]
    if ne > 2000:
        body += ["\tfoo 1"] * ne
    else:
        body += [rng.choice(kinds).replace("%d", str(i)) for i in range(ne)]
    body += ["\twarning \"w%d\"" % i for i in range(nw)] if nw <= 2000 else ["\twarning \"w\""] * nw
    for i in range(nexp):
        body += ["\texpect 1200\n\tbar%d\n\tendexpect" % i]
    if fatal:
        body.append("\tfatal \"boom\"")
    if rng.chance(0.2):
        # listing control: where a diagnostic is shown depends on the listing being switched on at that moment
        body += rng.choice([["\tlisting off"], ["\tlisting off", "\tlisting on"], ["\tlisting noskipped"], ["\tsave", "\tlisting off", "\trestore"]])
    if ne <= 2000 and nw <= 2000:
        rng.shuffle(body)
    L += body
    if fwd:
        L += ["\tdfs 300", "fwd%d:\tnop" % idx]
    if rng.chance(0.2):
        L.append("\tinclude \"inc%d.inc\"" % idx)
    if rng.chance(0.12):
        # the manual's forward-reference trap: a short branch over operands that shrink once a symbol defined at the very end is
        # known.  In pass 2 the branch still sees its target at the old, too distant address: an error is reported in a pass
        # that is then repeated (documented; -Y hides it).  Whatever is reported must still decide status and code file.
        k = rng.randint(52, 75)
        br = ["\tbeq sk%d" % idx]
        if rng.chance(0.4):
            br = ["\texpect 1370"] + br + ["\tendexpect"]  # the spurious error announced as expected
        pre = []
        if rng.chance(0.4):
            # a branch that is out of reach in every pass and announced as such, in front of labels that still move
            pre = ["bk%d:\tnop" % idx, "\tdfs 200", "\texpect 1370", "\tbne bk%d" % idx, "\tendexpect"]
            if rng.chance(0.5):
                br = []
        L[1:1] = pre + br + ["\tlda zv%d" % idx] * k + ["sk%d:\tnop" % idx]
        L.append("zv%d\tequ $10" % idx)
    if rng.chance(0.3):
        # diagnostics that are only issued when the pass ends, after the last source line has been read
        L.append(rng.choice(LATE).replace("%d", str(idx)))
    return "\n".join(L) + "\n", {"ne": ne, "nw": nw, "fatal": fatal, "fwd": fwd}


LATE = ["v%d\tequ 1\n\tpushv st%d,v%d", "\tif 1\n\tnop", "\tsave", "\tsection sec%d\n\tnop", "rec%d\tstruct\nf\tdfs 1",
        "mac%d\tmacro\n\tnop", "\tphase 100\n\tnop", "\tsave\n\tsave", "v%d\tequ 1\n\tpushv st%d,v%d\n\tpushv su%d,v%d"]
OPTS = [["-Y"], ["-l"], ["-Werror"], ["-maxerrors", "1"], ["-maxerrors", "3"], ["-x"], ["-x", "-x"], ["-n"], ["-w"], ["-L"],
        ["-gnuerrors"], ["-E", "!1"], ["-E", "!2"], ["-E", "err.log"], ["-E"], ["-g", "MAP"], ["-u"], ["-C"],
        ["-a"], ["-c"], ["-P"], ["-M"], ["-G"], ["+G"], ["+G", "-P"]]


def gen_case(seed):
    rng = Rng(seed)
    nsrc = rng.choice([1, 1, 1, 2, 2, 3])
    big = None
    r = rng.random()
    if r < 0.004:
        big = (rng.choice([65535, 65536, 65537, 131072]), 0)
    elif r < 0.008:
        big = (0, rng.choice([65535, 65536, 65537]))
    elif r < 0.03:
        big = (rng.choice([255, 256]), rng.choice([0, 255, 256]))
    disk = {}
    names = []
    metas = []
    for i in range(nsrc):
        src, meta = gen_source(rng, i, big if i == 0 else None)
        n = "s%d" % i
        names.append(n)
        disk["/w/%s.asm" % n] = src.encode()
        metas.append(meta)
        if "inc%d.inc" % i in src and rng.chance(0.6):
            disk["/w/inc%d.inc" % i] = b"\tnop\n" if rng.chance(0.7) else b"\tfoo_in_include 1\n"
        if rng.chance(0.4):
            disk["/w/%s.p" % n] = b"stale code file"
        if rng.chance(0.2):
            disk["/w/%s.lst" % n] = b"stale listing"
    opts = []
    for o in OPTS:
        if rng.chance(0.1):
            if o[0] == "-E" and any(x == "-E" for x in opts):
                continue
            opts += o
    if any(b"\tequ $10" in v for v in disk.values()) and "-Y" not in opts and rng.chance(0.5):
        opts = ["-Y"] + opts  # the forward-reference trap is what -Y is for: half of its cases run with it
    if not rng.chance(0.3):
        opts = ["-q"] + opts
    tail = []
    if "-E" in opts:  # a bare -E (per-source .log files) must not swallow the next argument
        i = opts.index("-E")
        if i + 1 >= len(opts) or not (opts[i + 1].startswith("!") or opts[i + 1].endswith(".log")):
            del opts[i]
            tail = ["-E"]
    outopt = []
    if nsrc == 1 and rng.chance(0.25):
        # the code file under a name of the user's choosing: with and without extension, in a sub-directory, absolute
        outopt = ["-o", rng.choice(["out", "out.p", "sub/out", "sub/out.bin", "./out", "/w/sub/o2", "sub.d/out", "o.u.t"])]
    sc = dict(argv=opts + [n + ".asm" for n in names] + tail + outopt, cwd="/w", dirs=["/w", "/w/sub", "/w/sub.d"], disk=disk, env={"LANG": "C"},
              want_events=1, max_events=1400000, unbuf_out=1)
    if "err.log" in opts or tail:
        sc["stdio_buf"] = 1
    if big:
        sc["cpu"] = 60
    return {"kind": "explicit", "scenario": scenario_to_json(sc), "names": names, "origin": "gen seed=%d" % seed,
            "meta": metas}


FAULT_BASES = [
    ("plain", [], 0), ("list", ["-L"], 0), ("share", ["-c"], 1), ("all", ["-L", "-a", "-g", "MAP", "-u", "-C"], 1),
    ("macro", ["-P", "-M"], 2), ("twofiles", [], 3), ("warn", ["-L"], 4), ("errors", ["-L"], 5),
    ("pas", ["-p", "-L"], 1), ("olist", ["-L", "-olist", "out.lst"], 0), ("big", [], 6), ("werror", ["-Werror"], 4),
]
FAULT_SRC = {
    0: "\tcpu 6502\n\tjmp fwd\n\tnop\n\tdfs 300\nfwd:\tnop\n\tdb 1,2,3\n",
    1: "\tcpu 6502\nv1\tequ 5\n\tshared v1\n\tjmp fwd\n\tdfs 300\nfwd:\tnop\n\tshared fwd\n",
    2: "\tcpu 6502\nm1\tmacro\n\tnop\n\tendm\n\tm1\n\tm1\n",
    3: "\tcpu 6502\n\tnop\n",
    4: "\tcpu 6502\n\twarning \"w\"\n\tnop\n",
    5: "\tcpu 6502\n\tfoo\n\tnop\n",
    6: "\tcpu 6502\n\tdb 2000 dup (1,2,3)\n\tdfs 10\n\tdb 2000 dup (4)\n",
}


def fault_base_scenario(bi):
    name, opts, si = FAULT_BASES[bi]
    disk = {"/w/a.asm": FAULT_SRC[si].encode()}
    files = ["a.asm"]
    if name == "twofiles":
        disk["/w/b.asm"] = FAULT_SRC[0].encode()
        files.append("b.asm")
    return dict(argv=["-q"] + opts + files, cwd="/w", disk=disk, env={"LANG": "C"}, want_events=1, unbuf_out=1)


# ------------------------------------------------------------------ oracle
def judge(sc, names, r, san):
    """Violations (class, detail) from the recorded history of one run."""
    out = []
    if r.kind == 3 or (r.kind == 1 and r.code == 24):
        return [], {"not_judged_budget": 1}  # the simulator's own budget, not the program's doing
    cls = oracle.classify("asl", r, san)
    if cls:
        return [("C02/abnormal/" + cls, r.outcome)], {}
    if r.kind != 0:
        return [], {}
    argv = sc["argv"]
    opts = [a for a in argv[1:] if not a.endswith(".asm")] if argv and argv[0].startswith("/sim/bin/") else [a for a in argv if not a.endswith(".asm")]
    werror = "-Werror" in opts
    gnu = "-gnuerrors" in opts
    gs = [a for a in opts if a in ("-G", "+G")]
    no_code = bool(gs) and gs[-1] == "+G"  # code generation switched off (-G is its positive form: the default); the last one counts
    # -Y forgives branch-range errors of a pass whose labels still moved: they were written, but are taken out of the
    # count again.  Written error lines then are an upper bound of what the run is answerable for, not the exact number.
    forgiving = "-Y" in opts
    evs = r.ev()
    # where do diagnostics go?
    chan = "<stderr>"
    if "-E" in opts:
        i = opts.index("-E")
        arg = opts[i + 1] if i + 1 < len(opts) and (opts[i + 1].startswith("!") or opts[i + 1].endswith(".log")) else ""
        if arg == "!1":
            chan = "<stdout>"
        elif arg in ("!2", "!0", "!3", "!4"):
            chan = "<stderr>" if arg == "!2" else None
        elif arg == "":
            chan = "per-file"
        else:
            chan = "/w/" + arg
    if chan is None:
        return [], {}
    # count diagnostics per source file
    info = {}
    fatal_seen = False
    total_err = 0
    per_file = {}
    if chan == "per-file":
        chunks = []
        for n in names:
            chunks += split_by_source(evs, r, [n], "/w/%s.log" % n)
    else:
        chunks = split_by_source(evs, r, names, chan)
    for n, txt in chunks:
        e, w, f = count_diags(txt, gnu)
        d = per_file.setdefault(n, [0, 0, False])
        d[0] += e
        d[1] = w  # last pass wins for warnings (split_by_source yields passes in order)
        d[2] = d[2] or f
    if chan != "per-file":
        alltxt = r.files.get(chan) or b""
    else:
        alltxt = b"".join(t for _, t in chunks)
    for m in FATAL_MARKS:
        if m in alltxt or m in r.stdout or m in r.stderr:
            fatal_seen = True
    total_err = sum(d[0] for d in per_file.values())
    lst_stdout = "-l" in opts
    lst_e = lst_w = 0
    if lst_stdout:
        if chan == "<stdout>":
            return [], {}  # listing and diagnostics share one stream: not told apart here
        # a diagnostic raised while the listing goes to stdout is shown there and not repeated on the error channel
        lst_e, lst_w, lf = count_diags(r.stdout, gnu)
        total_err += lst_e
        fatal_seen = fatal_seen or lf
    code = r.code
    stats = {"errors": total_err, "fatal": int(fatal_seen)}
    # (a) exit 0 <=> no error and no fatal
    if code == 0 and ((total_err > 0 and not forgiving) or fatal_seen):
        out.append(("C02/exit0-with-errors", "exit 0 but %d error line(s), fatal=%s" % (total_err, fatal_seen)))
    if code != 0 and total_err == 0 and not fatal_seen and code in (2, 3):
        out.append(("C02/exit%d-without-errors" % code, "exit %d but no error was reported" % code))
    if fatal_seen and code != 3:
        out.append(("C02/fatal-but-exit%d" % code, "fatal marker written, exit %d" % code))
    if not fatal_seen and total_err > 0 and code != 2 and not forgiving:
        out.append(("C02/errors-but-exit%d" % code, "%d errors reported, exit %d" % (total_err, code)))
    # (a') the stop at the -maxerrors limit is announced as "too many errors": then that many errors must have been reported
    if b"too many errors, assembly terminated" in (r.stdout + r.stderr + b"".join(v for k, v in r.files.items() if v and k.endswith(".log"))) \
            and "-maxerrors" in argv and not lst_stdout:
        try:
            lim = int(argv[argv.index("-maxerrors") + 1])
        except (ValueError, IndexError):
            lim = None
        counted = total_err + (sum(d[1] for d in per_file.values()) if werror else 0)
        if lim and counted < lim:
            out.append(("C02/maxerrors-stop-without-errors", "stopped for 'too many errors' at -maxerrors %d with %d error(s) reported" % (lim, total_err)))
    # (b)/(c)/(e) code files
    cpath = {n: "/w/%s.p" % n for n in names}
    if "-o" in argv and len(names) == 1:
        o = argv[argv.index("-o") + 1]
        cpath[names[0]] = o if o.startswith("/") else "/w/" + (o[2:] if o.startswith("./") else o)
    if (total_err > 0 and not forgiving) or fatal_seen:
        # whatever its name: nothing that looks like a code file may be left for a source with errors
        ok_paths = {cpath[n] for n in names if (forgiving or per_file.get(n, [0, 0, False])[0] == 0) and not per_file.get(n, [0, 0, False])[2]}
        for k, v in sorted(r.files.items()):
            if v and v[:2] == b"\x89\x14" and k not in ok_paths and not lst_stdout:
                out.append(("C02/code-file-left-after-errors", "%s holds a code file (%d bytes) after a run with %d error(s), fatal=%s" % (k, len(v), total_err, fatal_seen)))
                break
    for n in names:
        p = r.files.get(cpath[n])
        d = per_file.get(n, [0, 0, False])
        if no_code:
            continue  # no code file is written or removed: whatever lies there is not this run's
        if d[0] > 0 and p is not None and not forgiving:
            out.append(("C02/code-file-left-after-errors", "%s.p exists (%d bytes) although %d error(s) were reported for it"
                         % (n, len(p), d[0])))
        if code == 0 and p is None and not no_code:
            out.append(("C02/exit0-no-code-file", "exit 0 but %s.p does not exist" % n))
        if code == 0 and p == b"stale code file":
            out.append(("C02/exit0-stale-code-file", "%s.p is still the stale file" % n))
        if lst_stdout:
            continue  # diagnostics inside the stdout listing are not attributed to single files
        if d[0] == 0 and d[1] > 0 and not werror and not fatal_seen and code == 2 and total_err == 0:
            out.append(("C02/warnings-changed-status", "only warnings for %s but exit 2" % n))
    # (f) summary
    if lst_stdout:
        sums = parse_summary(r.stdout)
        per = 1 if "-q" in opts else 2  # the listing's own summary, plus the console summary unless quiet
        if sums and not fatal_seen and len(sums) == per * len(names) and all(x[0] is not None and x[1] is not None for x in sums):
            se = sum(x[0] for x in sums) // per
            if se > total_err if forgiving else se != total_err:
                out.append(("C02/summary-error-count", "summaries say %d errors in total, %d error lines written (stderr and stdout listing)" % (se, total_err)))
            sw = sum(x[1] for x in sums) // per
            tw = sum(d[1] for d in per_file.values()) + lst_w
            if sw != tw and "-w" not in opts and len(names) == 1:
                # earlier passes' warnings go to stderr and are counted per pass there; with one file the last segment is the last pass
                if sw != lst_w + per_file.get(names[0], [0, 0, False])[1]:
                    out.append(("C02/summary-warning-count", "summary says %d warnings, %d warning lines written" % (sw, tw)))
    elif chan != "<stdout>":
        sums = parse_summary(r.stdout) if "-q" not in opts else []
        lsts = []
        if "-L" in opts and "-olist" not in opts:
            lsts = [parse_summary(r.files.get("/w/%s.lst" % n) or b"") for n in names]
        if sums and not fatal_seen and len(sums) == len(names):
            for n, (se, sw) in zip(names, sums):
                d = per_file.get(n, [0, 0, False])
                if se is not None and (se > d[0] if forgiving else se != d[0]):
                    out.append(("C02/summary-error-count", "%s: summary says %d errors, %d error lines written" % (n, se, d[0])))
                if sw is not None and sw != d[1] and "-w" not in opts:
                    out.append(("C02/summary-warning-count", "%s: summary says %d warnings, %d warning lines in the last pass" % (n, sw, d[1])))
        if forgiving and sums and not fatal_seen and len(sums) == len(names) and all(x[0] is not None for x in sums):
            # what is left in the count after forgiving decides the status and the code files
            left = sum(x[0] for x in sums)
            if (left > 0) != (code != 0):
                out.append(("C02/summary-vs-exit", "summaries count %d error(s) after forgiving, exit %d" % (left, code)))
            for n, (se, _) in zip(names, sums):
                if se > 0 and r.files.get(cpath[n]) is not None and not no_code:
                    out.append(("C02/code-file-left-after-errors", "%s.p exists although its summary counts %d error(s)" % (n, se)))
        for n, s1 in zip(names, lsts):
            if s1 and not fatal_seen and len(s1) == 1:
                se, sw = s1[0]
                d = per_file.get(n, [0, 0, False])
                if se is not None and (se > d[0] if forgiving else se != d[0]):
                    out.append(("C02/listing-summary-error-count", "%s.lst says %d errors, %d written" % (n, se, d[0])))
    return out, stats


def count_diags(txt, gnu):
    e = w = 0
    f = False
    for line in txt.split(b"\n"):
        if gnu:
            m = RE_GNU.match(line)
            if m:
                if m.group(5):
                    w += 1
                else:
                    e += 1
        else:
            m = RE_NATIVE.match(line)
            if m:
                if m.group(2) == b"warning":
                    w += 1
                else:
                    e += 1
        if line.strip() in FATAL_MARKS:
            f = True
    return e, w, f


def parse_summary(txt):
    out = []
    cur = [None, None]
    for line in txt.split(b"\n"):
        m = RE_SUM_ERR.match(line)
        if m:
            cur[0] = int(m.group(1))
        m = RE_SUM_WARN.match(line)
        if m:
            cur[1] = int(m.group(1))
            out.append(tuple(cur))
            cur = [None, None]
    return out


def split_by_source(evs, r, names, chan):
    """[(source name, diagnostics text of one pass)] in order, from the event log.  A new file segment
    starts with the first event on any path /w/<name>.* of another source (the code file is opened before
    the source); within a file every OPEN-for-read of <name>.asm starts a new pass segment."""
    data = r.files.get(chan) or b""
    path_idx = {p: i for i, p in r.index.items()}
    chan_idx = path_idx.get(chan)
    stem_of = {}
    for i, p in r.index.items():
        if p.startswith("/w/") and "." in p:
            st = p[3:].rsplit(".", 1)[0]
            if st in names and i != chan_idx:
                stem_of[i] = st
    src_idx = {path_idx["/w/%s.asm" % n]: n for n in names if "/w/%s.asm" % n in path_idx}
    out = []
    cur_name = names[0] if names else None
    cur_start = 0
    written = 0
    for e in evs:
        fi = e[3]
        if fi in stem_of and stem_of[fi] != cur_name:
            out.append((cur_name, data[cur_start:written]))
            cur_name = stem_of[fi]
            cur_start = written
        if e[1] == EV_OPEN and fi in src_idx and e[6] == 0 and e[7] == ord("r"):
            out.append((cur_name, data[cur_start:written]))
            cur_start = written
        elif e[1] == EV_WRITE and fi == chan_idx and e[6] > 0:
            written = max(written, e[4] + e[5])
    if cur_name is not None:
        out.append((cur_name, data[cur_start:]))
    return out


# ------------------------------------------------------------------ cases
def plan(tier, seed):
    thorough = tier == "thorough"
    n = 300000 if thorough else 20000
    cases = [{"gen": "rand", "seed": mix(seed, "c02", i), "n": 25} for i in range(0, n, 25)]
    nb = len(FAULT_BASES) if thorough else 8
    for bi in range(nb):
        cases.append({"gen": "faults", "base": bi, "unbuf": 0})
        # unbuffered output streams: one write per fprintf, so faults also land in the late parts (symbol table, MAP
        # file, share trailer) that are written after the code file has been closed
        cases.append({"gen": "faults", "base": bi, "unbuf": 1})
    for t in ("missing-include", "bad-outdir", "bad-listdir", "unreadable-source"):
        cases.append({"gen": "special", "what": t})
    return cases


def run_explicit(sim, case, acc, variant="plain"):
    sc = scenario_from_json(case["scenario"])
    r, san = sim.run("asl", sc, variant)
    vs, stats = judge(sc, case["names"], r, san)
    acc["runs"] += 1
    acc["sim_us"] += r.sim_us
    acc["shapes"].add(r.hash)
    nt = 1 if (stats.get("errors") or stats.get("fatal") or r.faults_fired or b"warning" in r.stderr) else 0
    acc["keys"].append((int(chash(case["scenario"]), 16), nt))
    for k in ("errors", "fatal", "not_judged_budget"):
        if stats.get(k):
            acc["stats"]["runs_with_" + k] = acc["stats"].get("runs_with_" + k, 0) + 1
    acc["stats"]["exit:%s" % r.outcome] = acc["stats"].get("exit:%s" % r.outcome, 0) + 1
    return r, vs


def new_acc():
    return {"runs": 0, "sim_us": 0, "shapes": set(), "keys": [], "stats": {}, "faults": {}, "probes": {}, "viol": [], "seen": set(), "obs": set()}


def add_v(acc, vs, case, r):
    for cls, detail in vs:
        if cls not in acc["seen"]:
            acc["seen"].add(cls)
            acc["viol"].append({"class": cls, "detail": detail, "case": case, "digest": r.digest()})


def finish(acc, sample):
    return {"violations": acc["viol"], "runs": acc["runs"], "sim_us": acc["sim_us"], "shapes": sorted(acc["shapes"]),
            "keys": acc["keys"], "stats": acc["stats"], "faults": acc["faults"], "probes": acc["probes"], "sample": sample,
            "observations": sorted(acc["obs"])}


def run_case(sim, case):
    acc = new_acc()
    if case.get("kind") == "explicit":
        r, vs = run_explicit(sim, case, acc, case.get("variant", "plain"))
        return {"violations": [{"class": c, "detail": d} for c, d in vs], "case": case, "digest": r.digest(),
                "runs": 1, "sim_us": r.sim_us, "keys": acc["keys"]}
    g = case["gen"]
    if g == "rand":
        rng = Rng(case["seed"])
        last = None
        for i in range(case["n"]):
            c = gen_case(rng.u64())
            if i % 12 == 0:
                c["variant"] = "asan"
            r, vs = run_explicit(sim, c, acc, c.get("variant", "plain"))
            add_v(acc, vs, c, r)
            last = c
        sc = scenario_from_json(last["scenario"])
        return finish(acc, {"argv": sc["argv"], "sources": {k: v.decode("latin1")[:300] for k, v in sc["disk"].items() if k.endswith(".asm")}})
    if g == "faults":
        base = fault_base_scenario(case["base"])
        if case.get("unbuf"):
            base["stdio_buf"] = 1
        names = [a[:-4] for a in base["argv"] if a.endswith(".asm")]
        c0 = {"kind": "explicit", "scenario": scenario_to_json(base), "names": names, "origin": "fault base %s" % FAULT_BASES[case["base"]][0]}
        r0, vs = run_explicit(sim, c0, acc)
        add_v(acc, vs, c0, r0)
        # count operations per output class in the fault-free run
        counts = {}
        idx_cls = {}
        # classes by path suffix of the reply order
        evs = r0.ev()
        # we do not know file classes from events directly: enumerate (class, op, nth) and stop when the fault
        # no longer fires
        n_fired = 0
        for cls in (CLS_CODE, CLS_LIST, CLS_SHARE, CLS_INC, CLS_MAC, CLS_MAP, CLS_SOURCE):
            for op in (EV_OPEN, EV_WRITE, EV_SEEK, EV_CLOSE, EV_READ):
                if (op == EV_READ) != (cls in (CLS_SOURCE, CLS_INC)) and op in (EV_READ, EV_WRITE):
                    continue  # inputs are read, outputs written
                nth = 0
                while nth < 400:
                    nth += 1
                    fired_any = False
                    for errno_ in ((ENOSPC, EIO) if op == EV_WRITE else (EACCES,) if op == EV_OPEN else (EIO,)):
                        sc = dict(base)
                        sc["faults"] = [{"op": op, "cls": cls, "action": ACT_ERRNO, "nth": nth, "arg": errno_}]
                        c = {"kind": "explicit", "scenario": scenario_to_json(sc), "names": names,
                             "origin": "fault %s op=%d cls=%d nth=%d errno=%d" % (FAULT_BASES[case["base"]][0], op, cls, nth, errno_)}
                        r, vs = run_explicit(sim, c, acc)
                        if r.faults_fired:
                            fired_any = True
                            n_fired += 1
                            k = "%s:%s" % ({EV_OPEN: "open", EV_WRITE: "write", EV_SEEK: "seek", EV_CLOSE: "close", EV_READ: "read"}[op], errno_)
                            acc["faults"][k] = acc["faults"].get(k, 0) + 1
                            if r.kind == 0 and r.code == 3:
                                acc["probes"]["fatal_via_io_fault"] = acc["probes"].get("fatal_via_io_fault", 0) + 1
                            if r.kind == 0 and r.code == 0:
                                acc["probes"]["io_fault_ignored_exit0"] = acc["probes"].get("io_fault_ignored_exit0", 0) + 1
                                acc["obs"].add("an injected I/O error on an %s file (op %s) went unreported: exit 0, no diagnostic (outside C02's text: no error was reported)" % ("input" if op == EV_READ else "output", k))
                            add_v(acc, vs, c, r)
                    if not fired_any:
                        break
        return finish(acc, {"fault_base": FAULT_BASES[case["base"]][0], "fault_points_fired": n_fired})
    if g == "special":
        w = case["what"]
        if w == "missing-include":
            sc = dict(argv=["-q", "a.asm"], cwd="/w", disk={"/w/a.asm": b"\tcpu 6502\n\tnop\n\tinclude \"nothere.inc\"\n\tnop\n", "/w/a.p": b"stale code file"},
                      env={"LANG": "C"}, want_events=1)
        elif w == "bad-outdir":
            sc = dict(argv=["-q", "a.asm", "-o", "/w/nodir/a.p"], cwd="/w", disk={"/w/a.asm": b"\tcpu 6502\n\tnop\n"}, env={"LANG": "C"}, want_events=1)
        elif w == "bad-listdir":
            sc = dict(argv=["-q", "-L", "-olist", "/w/nodir/a.lst", "a.asm"], cwd="/w", disk={"/w/a.asm": b"\tcpu 6502\n\tnop\n"}, env={"LANG": "C"}, want_events=1)
        else:
            sc = dict(argv=["-q", "a.asm"], cwd="/w", disk={"/w/a.asm": b"\tcpu 6502\n\tnop\n"}, env={"LANG": "C"}, want_events=1,
                      faults=[{"op": EV_OPEN, "cls": 3, "action": ACT_ERRNO, "nth": 1, "arg": EACCES}])
        c = {"kind": "explicit", "scenario": scenario_to_json(sc), "names": ["a"], "origin": "special " + w}
        r, vs = run_explicit(sim, c, acc)
        add_v(acc, vs, c, r)
        acc["probes"]["special_" + w + "_" + r.outcome] = 1
        return finish(acc, {"special": w, "outcome": r.outcome, "stderr": r.stderr.decode("latin1")[:200]})
    return {"machinery_error": "unknown generator %r" % g}


def minimise(sim, case, vclass):
    if case.get("kind") != "explicit":
        return case
    sc = scenario_from_json(case["scenario"])
    names = list(case["names"])

    def holds(sc2, names2):
        c = dict(case)
        c["scenario"] = scenario_to_json(sc2)
        c["names"] = names2
        r = run_case(sim, c)
        return vclass in [v["class"] for v in r["violations"]]

    # drop whole source files
    for n in list(names):
        if len(names) > 1:
            n2 = [x for x in names if x != n]
            sc2 = dict(sc)
            sc2["argv"] = [a for a in sc["argv"] if a != n + ".asm"]
            if holds(sc2, n2):
                sc, names = sc2, n2
    # drop options
    argv = list(sc["argv"])
    i = 0
    while i < len(argv):
        if argv[i].startswith("-") and argv[i] != "-q":
            step = 2 if argv[i] in ("-maxerrors", "-g", "-olist") or (argv[i] == "-E" and i + 1 < len(argv) and not argv[i + 1].endswith(".asm") and not argv[i + 1].startswith("-")) else 1
            cand = argv[:i] + argv[i + step:]
            sc2 = dict(sc)
            sc2["argv"] = cand
            if holds(sc2, names):
                argv = cand
                sc = sc2
                continue
        i += 1
    # shrink each source by lines
    for n in names:
        p = "/w/%s.asm" % n
        lines = sc["disk"][p].split(b"\n")

        def t(ls):
            sc2 = dict(sc)
            sc2["disk"] = dict(sc["disk"])
            sc2["disk"][p] = b"\n".join(ls) + b"\n"
            return holds(sc2, names)
        if len(lines) < 3000:
            lines = ddmin([l for l in lines if l], t, max_tests=150)
            sc = dict(sc)
            sc["disk"] = dict(sc["disk"])
            sc["disk"][p] = b"\n".join(lines) + b"\n"
    # drop stale / extra files
    for k in sorted(sc["disk"]):
        if not k.endswith(".asm"):
            sc2 = dict(sc)
            sc2["disk"] = {a: b for a, b in sc["disk"].items() if a != k}
            if holds(sc2, names):
                sc = sc2
    c = dict(case)
    c["scenario"] = scenario_to_json(sc)
    c["names"] = names
    c["origin"] = case.get("origin", "") + " (minimised)"
    return c
