"""C18 - files assembled in one invocation do not influence each other.

Histories of 2-4 source files inside ONE simulated asl process are compared, file by file, against the
trivially state-free reference model 'the same file alone in a fresh process' (same options, same disk).
Predecessors: golden sources (same code generator preferred), golden sources cut at a random line (EOF at
an arbitrary instant leaves macros/IF/sections/structs/SAVE/PHASE open and mode flags set), generated
state-setters; successors: golden sources and state probes.
"""
import re

from .. import corpus, oracle
from ..driver import chash, ddmin
from ..rng import Rng, mix
from ..sim import scenario_from_json, scenario_to_json
from .c17 import local_disk

ID = "C18"
LEVEL = "exploration"
VARIANTS = ("plain", "asan")
EVAL_RUNS = True
RULE = ("histories [pred1..predk, succ] (k=1..3) in one process vs each file alone; predecessors: golden source "
        "(same source / same CPU family / random), golden source cut at a random line, state-setter built from "
        "1-4 statements of a catalogue of per-file state (radix, charset, padding, relaxed, enum, segment, phase, "
        "save, open section/struct/if/macro/rept/expect, symbols, macros, functions, pushv, cpu, listing modes, "
        "ASSUME); successors: golden sources and probes whose bytes depend on the defaults. non-trivial = "
        "predecessor and successor share a code generator, or the predecessor ended with diagnostics (open "
        "construct / errors); distinct by history content hash")
COMPONENTS = {"real": ["asl: all repository code, one process per history and one per solo reference"],
              "stubbed": ["storage below FILE*", "clock", "environment", "cwd"], "untouched": ["glibc stdio", "libm"]}
ASSUMPTIONS = ["a predecessor whose solo run ends with status 3 (fatal) ends the history's obligations",
               "files of a history share the invocation's options, so only golden programs with equal asflags are combined",
               "distinct output names per file (default names next to each source)"]

CPU_RE = re.compile(rb"^\s+cpu\s+([A-Za-z0-9_]+)", re.I | re.M)


def family(t):
    m = CPU_RE.search(t.src)
    if t.flags and "-cpu" in t.flags:
        return t.flags[t.flags.index("-cpu") + 1].lower()[:4]
    return (m.group(1).decode().lower()[:4] if m else "68k")


# ------------------------------------------------------------------ state setters and probes
SETTERS = [
    "\tradix 16", "\toutradix 2", "\tintsyntax +0hex,-$hex", "\tcharset 'a','z',1", "\tcharset 65,33", "\tcodepage mycp",
    "\tpadding on", "\tpadding off", "\tpacking on", "\tbigendian on", "\trelaxed on", "\tcompmode on", "\tsupmode on",
    "\tfpu on", "\tpmmu on", "\tfullpmmu on", "\tmaxmode on", "\textmode on", "\tlwordmode on", "\tsrcmode on",
    "\tlisting off", "\tlisting noskipped", "\tmacexp off", "\tmacexp_dft noif,nomacro", "\ttitle \"leak\"",
    "\tprtinit \"xx\"", "\tprtexit \"yy\"", "\tpage 20,40", "\tnewpage", "x1\tenum 7,8,9", "\tenumconf 5,2",
    "\tsegment data", "\tsegment xdata", "\torg 1234", "\tphase 4321", "\tsave", "\tsave\n\tsave", "\tsection leaksec",
    "lk\tstruct\nf1\tdb ?", "lk\tunion\nf1\tdb ?", "\tif 1", "\tif 0", "\tifdef nope\n\telse", "\tswitch 3\n\tcase 3",
    "lkm\tmacro p1\n\tdb p1", "lkm\tmacro\n\tdb 77\n\tendm", "\trept 3", "\tirp x,1,2", "\texpect 1200",
    "leaked\tequ 1", "leaked\tset 2", "leaked:", "lkf\tfunction x,x+1", "\tpushv st1,leaked", "$$tmp:\n-\n+",
    "\tnestmax 2", "\tmaxnest 3", "\tdottedstructs on", "\tz80syntax exclusive", "\tbranchext on", "\tassume a5:nothing",
    "\tcpu 6502", "\tcpu 68000", "\tcpu z80", "\tcpu 8051", "\tcpu 8086", "\tcpu 65ce02\n\tassume b:$80", "\tcpu z8601\n\tassume rp:$70",
    "\tcpu 320c30\n\tassume dp:5", "\tcpu 78310\n\tassume rss:1", "\tcpu sx20\n\tassume fsr:$20", "\tcpu 8086\n\tassume ds:nothing,es:nothing",
    "\tcpu 80c166\n\tassume dpp0:1", "\tcpu 68hc12x\n\tassume direct:5", "\tcpu 6809\n\tassume dpr:$20", "\tcpu 87c70\n", "\tcpu msp430\n\tpadding on",
    "\tcpu 68hc11k4\n\tassume mmsiz:1", "\tcpu mn1613\n\tassume csbr:1", "\tcpu melps7751\n\tassume pg:1,dt:2,dpr:$100", "\tcpu 75104\n\tassume mbs:1",
    "\tcpu 80c39\n", "\tcpu 8x305\n", "\tcpu 47c00\n\tassume dmb:1", "\tcpu st6210\n\tassume rombase:5", "\tcpu 1802\n", "\tcpu tms70c00\n",
    "\tcharset\n\tcharset 'a',200", "\terror \"planted\"", "\tfoo_unknown", "\tdb 1000", "\tinclude \"missing.inc\"", "\tend",
    "\tcpu 6502\n\tbne *+300\n\tbeq *-300", "\tcpu 68000\n\tbra.s *+400", "\tcpu z80\n\tjr $+1000",
    "\tshared leaked", "\tglobal lk2", "\tpublic lk3", "\tforward lk4", "\tlabel 5", "lkr\treg r3", "lkb\tbit 5", "lkp\tport 7",
    "lks\tsfr 80h", "\tdefine leakdef 5", "leakdef\tdefine 5",
    # resources that only ever grow during a run: a source line far longer than the initial line buffer, a deep macro nest
    "\tcpu 6809\n\tfcb " + ",".join(["1"] * 300) + " ; " + "x" * 900, "\tcpu z80\n\tdb " + ",".join(["2"] * 330) + "\n; " + "x" * 3000,
    "\tcpu z80\nlng\tmacro p\n\tdb " + "1," * 300 + "p\n\tendm\n\tlng " + "9" * 900,
    # targets that take over names of the macro processor (SHIFT, SWITCH, PAGE are instructions there)
    "\tcpu kenbak\n\tnop", "\tcpu kenbak\n\tshift left,1,a", "\tcpu msm5054\n\tnop", "\tcpu st7\n\tnop",
    # constructs left open at several levels at the end of the source
    "\tphase 256\n\tnop\n\tphase 512\n\tnop", "\tsection a1\n\tsection b1\n\tnop", "\tif 1\n\tif 1\n\tnop", "\tsave\n\tlisting off\n\tsave\n\tcpu z80",
    "\tsegment data\n\tphase 64\n\tsegment code\n\tphase 128",
    # a source that ends while a prefix instruction's window is still open
    "\tcpu 80c167\n\textp r5,#2\n\tmov r1,8120h", "\tcpu 80c167\n\textr #1", "\tcpu 80c167\n\textsr #1,#3\n\tnop", "\tcpu 80c167\n\tatomic #4\n\tnop",
    "\tcpu 8086\n\trep", "\tcpu z80\n\tdb 0ddh", "\tcpu 68hc12\n\tfcb $18", "\tcpu 6309\n\tfcb $10",
    # relocation bookkeeping registered behind the last data of the file
    "\tcpu 68000\nlkx:\tdc.l 1\n\tds.b 4\n\texport_sym lkx", "\tcpu 8051\n\textern_sym lki\n\tljmp lki\n\tds 2\n\texport_sym lki2",
    "\tcpu 68000\n\trseg\nlkr:\tdc.l lkr\n\tds.b 2\n\texport_sym lkr", "\tcpu z80\nlkz:\tnop\n\tds 3\n\texport_sym lkz\n\tend lkz",
]

PROBES = {
    "fwd68k": "\tcpu 68000\n\tbra fw\n\tds.b 200\nfw:\tnop\n\tdc.b 1\nl2:\tdc.w l2\n\tbra fw2\n\tds.b 300\nfw2:\tnop\n",
    "fwd6502": "\tcpu 6502\n\tlda fw\n\tjmp fw\n\tdfs 300\nfw:\tnop\n",
    "z80": "\tcpu z80\n\tdb 10,'a',\"AZaz\"\n\tdw 1234h\nn1\tnextenum\n\tdb n1\n\tifdef leaked\n\tdb 99\n\tendif\n\tifdef lkm\n\tdb 98\n\tendif\nhere:\tdw here,$\n\tdb lo(1234h)\n$$t:\tdb 1\n\tjr $$t\n-\tnop\n\tjr -\n\tjr +\n+\tnop\npm\tmacro\n\tdb 5\n\tendm\n\tpm\n\tdb 101b,17o\n",
    "68000": "\tcpu 68000\n\tdc.b 10,'a'\n\tdc.w 2\n\tdc.b 1\n\tdc.l $12345678\nhere:\tdc.l here,*\n\tmove.l #5,d0\n\tbra.s here\n\tifdef leaked\n\tdc.b 99\n\tendif\nn1\tnextenum\n\tdc.b n1\n\tmove.l (a0,d0.w),d1\n\tdc.b \"AZaz\"\n",
    "6502": "\tcpu 6502\n\tbyt 10,'a'\n\tadr $1234\nhere:\tadr here,*\n\tlda $12\n\tlda $1234\n\tlda #5\n\tbne here\n\tifdef leaked\n\tbyt 99\n\tendif\nn1\tnextenum\n\tbyt n1\n",
    "8051": "\tcpu 8051\n\tdb 10,'a'\n\tdw 1234h\nhere:\tdw here,$\n\tmov a,#5\n\tsjmp here\n\tsegment data\nv:\tdb ?\n\tsegment code\n\tmov a,v\n\tifdef leaked\n\tdb 99\n\tendif\nn1\tnextenum\n\tdb n1\n",
    "8086": "\tcpu 8086\n\tdb 10,'a'\n\tdw 1234h\nhere:\tdw here,$\n\tmov ax,5\n\tmov bx,[here]\n\tjmp here\n\tifdef leaked\n\tdb 99\n\tendif\n",
    "65ce02": "\tcpu 65ce02\n\tlda $12\n\tlda $8012\n\tlda $1234\n\tbyt 10\n",
    "z8": "\tcpu z8601\n\tld r1,#5\n\tld 15h,#3\n\tld 75h,#3\n\tdb 10\n",
    "c30": "\tcpu 320c30\n\tldi @12345h,r0\n\tword 10\n",
    "78k3": "\tcpu 78310\n\tmov r1,#5\n\tmov a,r2\n\tdb 10\n",
    "sx20": "\tcpu sx20\n\tmov w,#5\n\tmov $25,w\n\tdata 10\n",
    "6809": "\tcpu 6809\n\tlda $2012\n\tlda $12\n\tfcb 10\n",
    "msp": "\tcpu msp430\n\tmov #5,r5\n\t.byte 1\n\t.word 2\n",
    "linebuf": "\tcpu z80\nv\tequ 124\n" + "".join(
        "lb%d\tmacro pp\n\tdb %s%spp\n\tendm\n\tlb%d v+10\n" % (n, "1," * 400, " " * (n - 4 - 800 - 4), n)
        for n in (1015, 1016, 1017, 1021, 1022, 1023, 1024, 1025, 1026, 1151, 1152, 1153, 2047, 2048, 2049)),
    # targets with a DATA (and IO) segment used without ORG: its origin must be the target's own
    "16c5x": "\tcpu 16c57\n\tsegment data\nv:\tres 2\nw:\tres 1\n\tsegment code\n\tmovwf w\n\tdata w\n",
    "hmcs400": "\tcpu hd614023\n\tsegment data\nv:\tres 2\nw:\tres 1\n\tsegment code\n\tdata w\n",
    "olms40": "\tcpu msm5840\n\tsegment data\nv:\tres 2\nw:\tres 1\n\tsegment code\n\tdata w\n",
    "olms50": "\tcpu msm5054\n\tsegment data\nv:\tres 2\nw:\tres 1\n\tsegment code\n\tdata w\n",
    "f8": "\tcpu f3850\n\tsegment data\nv:\tds 2\nw:\tds 1\n\tsegment io\nio1:\tds 1\n\tsegment code\nc1:\tdb w,io1\n\tdw c1\n",
    "sx20d": "\tcpu sx20\n\tsegment data\nv:\tres 2\nw:\tres 1\n\tsegment code\n\tmov w,#w\n\tdata w\n",
    "47c00": "\tcpu 47c00\n\tsegment data\nv:\tds 2\nw:\tds 1\n\tsegment code\n\tld a,w\n",
    "avr": "\tcpu at90s8515\n\tsegment data\nv:\tres 2\nw:\tres 1\n\tsegment code\n\tlds r1,w\n",
    "c166": "\tcpu 80c167\n\tmov r1,8120h\n\tmov r2,0f120h\n\tmov 0fe10h,r3\n\tmov r4,0c000h\n\tadd r1,0f000h\n",
    # DW / DB aliases of the Motorola-syntax targets as the first data statement of the source
    "6809dw": "\tcpu 6809\n\tlda #1\n\tdw $1234,$5678\n\tdb 1\n\tnop\n", "6800dw": "\tcpu 6800\n\tnop\n\tdw $1234\n\tdb 2\n",
    "6805dw": "\tcpu 6805\n\tnop\n\tdw $1234\n", "hc12dw": "\tcpu 68hc12\n\tnop\n\tdw $1234\n", "hc16dw": "\tcpu 68hc16\n\tnop\n\tdw $1234\n",
    "rs08dw": "\tcpu 68rs08\n\tnop\n\tdw $1234\n", "6804dw": "\tcpu 6804\n\tnop\n\tdw $1234\n",
    "macshift": "\tcpu 8051\nsm\tmacro a,b,c\n\tdb a\n\tshift\n\tdb a\n\tshift\n\tdb a\n\tendm\n\tsm 1,2,3\n\tswitch 2\n\tcase 2\n\tdb 9\n\tendcase\n\tpage 30\n",
    "st6": "\tcpu st6210\n\tword 1234h,5678h\n\tbyte 1\n\tascii \"ab\"\n\tld a,12h\n",
    "6805": "\tcpu 6805\n\tfdb $1234\n\tdw $5678\n\tlda $12\n\tlda $1234\n",
    "6811": "\tcpu 6811\n\tfdb $1234\n\tdw $5678\n\tadr $9abc\n\tldaa $12\n\tldaa $1234\n",
    "7700": "\tcpu melps7700\n\tadr $1234\n\tlda $12\n\tlda $1234\n",
    "st7": "\tcpu st7\n\tdc.w $1234\n\tld a,$12\n",
    "xgate": "\tcpu xgate\n\tfdb $1234\n\tadr $5678\n",
    "s12z": "\tcpu s912zvc19f0mkh\n\tfdb $1234\n\tdw $5678\n",
}


def gen_setter(rng):
    n = rng.randint(1, 4)
    lines = [rng.choice(SETTERS) for _ in range(n)]
    pre = rng.choice(["", "", "\tcpu z80\n", "\tcpu 68000\n", "\tcpu 6502\n", "\tcpu 8051\n"])
    body = "\n".join(lines) + "\n"
    if rng.chance(0.5):
        body += "\tnop\n"
    return pre + body


# ------------------------------------------------------------------ history construction
def member_from_test(t, slot, cut=None):
    d = "/w/t%d" % slot
    disk = local_disk(t, d)
    main = "%s/%s.asm" % (d, t.name)
    if cut is not None:
        lines = t.src.split(b"\n")
        disk[main] = b"\n".join(lines[:cut]) + b"\n"
    return {"dir": d, "main": main, "disk": disk, "label": t.name + ("@%d" % cut if cut is not None else "")}


def member_from_text(text, slot, label):
    d = "/w/t%d" % slot
    main = "%s/m%d.asm" % (d, slot)
    return {"dir": d, "main": main, "disk": {main: text.encode("latin1") if isinstance(text, str) else text}, "label": label}


def scenario_for(members, flags, which=None):
    flags = list(flags)
    """Scenario assembling members[which] (all if None) in one process; same disk and options in every variant."""
    disk = {}
    dirs = ["/w"]
    inc = ["-i", "/sim/inc"]
    for m in members:
        disk.update(m["disk"])
        dirs.append(m["dir"])
        inc += ["-i", m["dir"]]
    files = [m["main"] for i, m in enumerate(members) if which is None or i in which]
    return dict(argv=list(flags) + ["-q"] + inc + files + ["-E"], cwd="/w", dirs=dirs, disk=disk, env={"LANG": "C"},
                max_events=1400000, cpu=60)


def observe(r, m):
    base = m["main"][:-4]
    return {"p": r.files.get(base + ".p"), "log": r.files.get(base + ".log")}


def compare(members, flags, sim, variant, acc):
    """Returns list of (class, detail) for one history."""
    vs = []
    solo = []
    for i, m in enumerate(members):
        r, san = sim.run("asl", scenario_for(members, flags, [i]), variant)
        acc["runs"] += 1
        acc["sim_us"] += r.sim_us
        cls = oracle.classify("asl", r, san)
        if cls and "/hang/" in cls:
            acc["stats"]["not_judged_budget"] = acc["stats"].get("not_judged_budget", 0) + 1
            return vs, None
        if cls:
            acc["stats"]["solo_abnormal"] = acc["stats"].get("solo_abnormal", 0) + 1
            return vs, None
        solo.append((r, observe(r, m)))
    rc, sanc = sim.run("asl", scenario_for(members, flags, None), variant)
    acc["runs"] += 1
    acc["sim_us"] += rc.sim_us
    acc["shapes"].add(rc.hash)
    cls = oracle.classify("asl", rc, sanc)
    if cls and "/hang/" in cls:
        acc["stats"]["not_judged_budget"] = acc["stats"].get("not_judged_budget", 0) + 1
        return vs, rc
    if cls:
        vs.append(("C18/abnormal/" + cls, "combined run %s: %s" % ([m["label"] for m in members], rc.outcome)))
        return vs, rc
    expect_exit = 0
    for i, m in enumerate(members):
        rs, os_ = solo[i]
        if rs.kind == 0 and rs.code == 3:
            # fatal predecessor: the run stops there; nothing is demanded for later files
            if not (rc.kind == 0 and rc.code == 3):
                vs.append(("C18/fatal-lost", "%s is fatal alone (exit 3) but the history ended with %s" % (m["label"], rc.outcome)))
            return vs, rc
        if rs.kind == 0 and rs.code == 2:
            expect_exit = 2
        oc = observe(rc, m)
        role = "succ" if i == len(members) - 1 else "pred"
        if oc["p"] != os_["p"]:
            if os_["p"] is None:
                what = "code file appears (%d bytes) although the file fails alone" % len(oc["p"])
            elif oc["p"] is None:
                what = "code file missing although the file assembles alone"
            else:
                what = "code file differs (%d vs %d bytes alone)" % (len(oc["p"]), len(os_["p"]))
            vs.append(("C18/code/%s/%s" % (role, m.get("family") or "any"), "%s after %s: %s" % (m["label"], [x["label"] for x in members[:i]], what)))
        elif (oc["log"] or b"") != (os_["log"] or b""):
            a = (oc["log"] or b"").split(b"\n")
            b = (os_["log"] or b"").split(b"\n")
            d = [x for x in a if x not in b][:1] or [x for x in b if x not in a][:1]
            vs.append(("C18/diagnostics/%s/%s" % (role, m.get("family") or "any"), "%s after %s: diagnostics differ, e.g. %r" % (m["label"], [x["label"] for x in members[:i]], d[0][:120] if d else b"")))
    if rc.kind == 0 and rc.code != expect_exit and not vs:
        vs.append(("C18/exit-status", "history exit %d, files alone imply %d" % (rc.code, expect_exit)))
    return vs, rc


def plan(tier, seed):
    thorough = tier == "thorough"
    n = 300000 if thorough else 4000
    per = 20
    cases = [{"gen": "hist", "seed": mix(seed, "c18", i), "n": per} for i in range(0, n, per)]
    # systematic part: every golden source preceded by itself (whole and cut)
    for t in corpus.tests():
        cases.append({"gen": "self", "test": t.name, "seed": mix(seed, "c18s", t.name), "cuts": 6 if thorough else 2})
    # every setter statement alone before every probe
    for i in range(0, len(SETTERS), 12):
        cases.append({"gen": "setters", "lo": i, "hi": min(len(SETTERS), i + 12)})
    return cases


def explicit_case(members, flags, variant):
    return {"kind": "explicit", "flags": list(flags), "variant": variant,
            "members": [{"dir": m["dir"], "main": m["main"], "label": m["label"], "family": m.get("family"),
                         "disk": scenario_to_json(m["disk"])} for m in members]}


def run_history(sim, members, flags, variant, acc, vio):
    vs, rc = compare(members, flags, sim, variant, acc)
    fams = [m.get("family") for m in members]
    shared = fams[-1] is not None and fams[-1] in fams[:-1]
    nt = 1 if shared or (rc is not None and any((rc.files.get(m["main"][:-4] + ".log") or b"") for m in members[:-1])) else 0
    case = explicit_case(members, flags, variant)
    acc["keys"].append((int(chash(case), 16), nt))
    if shared:
        acc["faults"]["same-generator-history"] = acc["faults"].get("same-generator-history", 0) + 1
    for cls, detail in vs:
        vio.append({"class": cls, "detail": detail, "case": case, "digest": rc.digest() if rc is not None else None})
    return vs


def run_case(sim, case):
    acc = {"runs": 0, "sim_us": 0, "shapes": set(), "keys": [], "stats": {}, "faults": {}}
    vio = []
    if case.get("kind") == "explicit":
        members = [{"dir": m["dir"], "main": m["main"], "label": m["label"], "family": m.get("family"),
                    "disk": scenario_from_json(m["disk"])} for m in case["members"]]
        vs, rc = compare(members, case["flags"], sim, case.get("variant", "plain"), acc)
        return {"violations": [{"class": c, "detail": d} for c, d in vs], "case": case, "digest": rc.digest() if rc is not None else None,
                "runs": acc["runs"], "sim_us": acc["sim_us"]}
    tests = corpus.tests()
    by_flags = {}
    for t in tests:
        by_flags.setdefault(tuple(t.flags), []).append(t)
    sample = None
    if case["gen"] == "hist":
        rng = Rng(case["seed"])
        for _ in range(case["n"]):
            variant = "asan" if rng.chance(0.06) else "plain"
            k = rng.choice([1, 1, 1, 2, 3])
            # successor
            if rng.chance(0.35):
                pname = rng.choice(sorted(PROBES))
                succ = member_from_text(PROBES[pname], k, "probe:" + pname)
                succ["family"] = pname[:4]
                flags = ()
                pool_t = by_flags.get((), [])
            else:
                st = rng.choice(tests)
                succ = member_from_test(st, k)
                succ["family"] = family(st)
                flags = tuple(st.flags)
                pool_t = by_flags[flags]
            members = []
            for j in range(k):
                r = rng.random()
                if r < 0.4:
                    m = member_from_text(gen_setter(rng), j, "setter")
                    m["family"] = None
                else:
                    same = [t for t in pool_t if family(t) == succ["family"]]
                    t = rng.choice(same) if same and rng.chance(0.6) else rng.choice(pool_t)
                    cut = None
                    if rng.chance(0.5):
                        cut = rng.randint(1, max(1, t.src.count(b"\n")))
                    m = member_from_test(t, j, cut)
                    m["family"] = family(t)
                members.append(m)
            members.append(succ)
            if not flags and rng.chance(0.25):
                flags = ("-Y",) if rng.chance(0.5) else ("-r",)
            run_history(sim, members, flags, variant, acc, vio)
            sample = {"history": [m["label"] for m in members], "flags": list(flags)}
    elif case["gen"] == "self":
        t = corpus.by_name(case["test"])
        rng = Rng(case["seed"])
        nl = max(1, t.src.count(b"\n"))
        cuts = [None] + [rng.randint(1, nl) for _ in range(case["cuts"])]
        for cut in cuts:
            a = member_from_test(t, 0, cut)
            b = member_from_test(t, 1)
            a["family"] = b["family"] = family(t)
            run_history(sim, [a, b], tuple(t.flags), "plain", acc, vio)
        sample = {"history": [t.name + "(cut)", t.name], "cuts": cuts}
    elif case["gen"] == "setters":
        for si in range(case["lo"], case["hi"]):
            for pname in sorted(PROBES):
                for pre in ("", "\tcpu %s\n" % PROBES[pname].split("\n")[0].split()[1]):
                    a = member_from_text(pre + SETTERS[si] + "\n", 0, "setter:%d" % si)
                    b = member_from_text(PROBES[pname], 1, "probe:" + pname)
                    a["family"] = pname[:4] if pre else None
                    b["family"] = pname[:4]
                    run_history(sim, [a, b], ("-Y",) if (si + len(pname)) % 3 == 0 else (), "plain", acc, vio)
        sample = {"setter": SETTERS[case["lo"]], "probes": sorted(PROBES)}
    else:
        return {"machinery_error": "unknown generator"}
    seen = set()
    out = []
    for v in vio:
        if v["class"] not in seen:
            seen.add(v["class"])
            out.append(v)
    return {"violations": out, "runs": acc["runs"], "sim_us": acc["sim_us"], "shapes": sorted(acc["shapes"]), "keys": acc["keys"],
            "stats": acc["stats"], "faults": acc["faults"], "sample": sample}


def minimise(sim, case, vclass):
    if case.get("kind") != "explicit":
        return case

    def holds(c):
        return vclass in [v["class"] for v in run_case(sim, c)["violations"]]

    # drop predecessors
    c = case
    while len(c["members"]) > 2:
        dropped = False
        for i in range(len(c["members"]) - 1):
            c2 = dict(c)
            c2["members"] = c["members"][:i] + c["members"][i + 1:]
            if holds(c2):
                c = c2
                dropped = True
                break
        if not dropped:
            break
    # shrink the remaining predecessors' main sources by lines
    for i in range(len(c["members"]) - 1):
        m = c["members"][i]
        disk = scenario_from_json(m["disk"])
        lines = disk[m["main"]].split(b"\n")
        if len(lines) > 4000:
            continue

        def t(ls):
            d2 = dict(disk)
            d2[m["main"]] = b"\n".join(ls) + b"\n"
            c2 = dict(c)
            m2 = dict(m)
            m2["disk"] = scenario_to_json(d2)
            c2["members"] = c["members"][:i] + [m2] + c["members"][i + 1:]
            return holds(c2)
        lines = ddmin([l for l in lines], t, max_tests=120)
        disk[m["main"]] = b"\n".join(lines) + b"\n"
        m2 = dict(m)
        m2["disk"] = scenario_to_json(disk)
        c = dict(c)
        c["members"] = c["members"][:i] + [m2] + c["members"][i + 1:]
    return c
