"""C19 - listing, debug map and share file state the facts of the code file.

The witness is the recorded emission history of the run (hook H4: one record per emitted/reserved chunk
with pass, file, line, segment, load address, phase, bytes as written and as held in the code buffer), which
sits in the simulator's totally ordered log.  Rules: (1) trace == code file, (2) listing is an
order-preserving sub-sequence of the final-pass trace (address and words), (3) every MAP line:address entry
matches a final-pass trace record of that segment/file/line/address, (4) listing symbol table, MAP symbol
section and share file agree on symbol values.  Run under the pass-schedule (forced extra pass) and
file-history (predecessor file in the same process) perturbations, where stale per-pass / per-file
bookkeeping of the renderers shows.
"""
import re
import struct

from .. import codefile, corpus, oracle
from ..driver import chash
from ..rng import Rng, mix
from ..sim import scenario_from_json, scenario_to_json
from .c17 import gen_program, local_disk

ID = "C19"
LEVEL = "exploration"
VARIANTS = ("plain", "asan")
EVAL_RUNS = True
RULE = ("every golden program and generated programs (macros, repetitions, several segments, PHASE, padding, lines with "
        "more code than one listing line) with -L, one debug format (-g MAP 60%, NOICE 20%, ATMEL 20%: line entries of all three, "
        "symbol values of MAP and NoICE, per-unit code words of the Atmel object file) and one share format (-a/-c/-p), list radix from {16,16,16,10,8,2,any of 2..36 twice}, "
        "x forced extra passes {0,1} x optional predecessor file in the same process. non-trivial = the run has >=1 "
        "multi-line code dump, >=1 PHASE or >=2 segments, or runs under a perturbed schedule/history; distinct by "
        "scenario content hash")
COMPONENTS = {"real": ["asl: all repository code incl. hooks H1 (extra pass), H3 (code-buffer size), H4 (emission trace)"],
              "stubbed": ["storage below FILE*", "clock", "environment", "cwd"], "untouched": ["glibc stdio", "libm"]}
ASSUMPTIONS = ["the hook's emission trace is validated against the code file in every run (rule 1) before it is used as witness",
               "listing code words are compared for targets/lines listed through the common MakeList() path in radix 16, 10, 8 or 2",
               "SET variables are compared between listing and MAP only (SHARED writes the value at statement time)"]

SEGNAMES = {"NOTHING": 0, "CODE": 1, "DATA": 2, "IDATA": 3, "XDATA": 4, "YDATA": 5, "BITDATA": 6, "IO": 7, "REG": 8, "ROMDATA": 9, "EEDATA": 10}
LISTLINESPACE = 20
RE_LST = re.compile(rb"^(?:\(\d+\)|   )\s*(\d+)/\s*([0-9A-Za-z]+) ([:R]) (.*)$")
RE_LST_CONT = re.compile(rb"^\s{9,12}\s*([0-9A-Za-z]+) ([:R]) (.*)$")


def parse_trace(trc):
    """Returns (final pass number per file section, records) - records of all passes:
    dict(pass, file, line, inmac, seg, gran, lgran, dontprint, pc, phase, clen, written, raw)."""
    recs = []
    files = []
    cur = None
    for ln in (trc or b"").split(b"\n"):
        if ln.startswith(b"F "):
            cur = {"name": ln[2:].decode("latin1"), "recs": [], "passes": []}
            files.append(cur)
        elif ln.startswith(b"P ") and cur is not None:
            f = ln.split()
            cur["passes"].append(int(f[1]))
        elif ln.startswith(b"E ") and cur is not None:
            f = ln.split(b" ")
            try:
                w = b"" if f[12] == b"-" else bytes.fromhex(f[12].decode())
                raw = b"" if f[13] == b"-" else bytes.fromhex(f[13].decode())
                cur["recs"].append({"pass": int(f[1]), "file": f[2].decode("latin1"), "line": int(f[3]), "inmac": int(f[4]),
                                    "seg": int(f[5]), "gran": int(f[6]), "lgran": int(f[7]), "dp": int(f[8]), "pc": int(f[9], 16),
                                    "phase": int(f[10], 16), "clen": int(f[11]), "w": w, "raw": raw})
            except (ValueError, IndexError):
                continue
    return files


def to_radix(tok, radix):
    try:
        return int(tok, radix)
    except ValueError:
        return None


def words_of(rec, lgran):
    """Listing rendering of a chunk: units of the listing granularity while a full unit remains, then bytes."""
    raw = rec["raw"]
    out = []
    i = 0
    n = len(raw)
    g = lgran if n >= lgran else 1
    while i < n:
        if i + g > n:
            g = 1
        out.append((g, int.from_bytes(raw[i:i + g], "little")))
        i += g
    return out


def code_field_tokens(rest):
    """Tokens of the code field: the first word is always printed in full, further words only while they
    end before column LISTLINESPACE (MakeList's loop condition)."""
    m = re.match(rb"(\S+)", rest)
    if not m:
        return [], rest[:LISTLINESPACE]
    toks = [m.group(1)]
    pos = m.end()
    while True:
        m2 = re.match(rb" (\S+)", rest[pos:])
        if not m2 or pos + m2.end() >= LISTLINESPACE:
            break
        toks.append(m2.group(1))
        pos += m2.end()
    return toks, rest[:max(pos, LISTLINESPACE)]


def parse_listing(lst, radix):
    """[(line number, address, [word values], raw field)] for code-bearing listing lines (continuations merged)."""
    out = []
    cur = None
    in_body = True
    for ln in lst.split(b"\n"):
        if b"Symbol Table (* = unused)" in ln or b"Symboltabelle" in ln:
            in_body = False
        if not in_body:
            continue
        m = RE_LST.match(ln)
        if m:
            toks, field = code_field_tokens(m.group(4))
            vals = [to_radix(t.decode("latin1"), radix) for t in toks]
            # the alternative column holds =value, (MACRO), [section] ... or the bare words ALL / NONE (effective MACEXP
            # setting), which are also numbers in a radix above 21 / 24
            if toks and all(v is not None for v in vals) and not field.startswith((b"=", b"(", b"[", b" ")) and field.strip() not in (b"ALL", b"NONE"):
                addr = to_radix(m.group(2).decode("latin1"), radix)
                if addr is None:
                    cur = None
                    continue
                cur = [int(m.group(1)), addr, [(len(t), v) for t, v in zip(toks, vals)], field, []]
                out.append(cur)
            else:
                cur = None
            continue
        m = RE_LST_CONT.match(ln)
        if m and cur is not None:
            toks, field = code_field_tokens(m.group(3))
            vals = [to_radix(t.decode("latin1"), radix) for t in toks]
            if toks and all(v is not None for v in vals) and not field.startswith(b" "):
                # a continuation line is a code-bearing line too: remember which item it starts with and the address it shows
                cur[4].append((len(cur[2]), to_radix(m.group(1).decode("latin1"), radix)))
                cur[2] += [(len(t), v) for t, v in zip(toks, vals)]
                continue
        if not m:
            cur = None if not ln.startswith(b"> > >") else cur
    return out


def parse_map(mp):
    """([(segname, file, line, addr)], {(segname, symbol): (type, value text, changeable)})"""
    entries = []
    syms = {}
    seg = fil = None
    insym = None
    for ln in (mp or b"").split(b"\n"):
        s = ln.decode("latin1")
        if s.startswith("Symbols in Segment "):
            insym = s[len("Symbols in Segment "):].strip()
            continue
        if s.startswith("Segment "):
            seg = s[8:].strip()
            insym = None
            continue
        if s.startswith("File "):
            fil = s[5:].strip()
            continue
        if s.startswith("Info for Section") or s.startswith("  "):
            if not re.match(r"^\s+\d+:[0-9A-F]+", s):
                continue
        if insym is not None:
            f = s.split()
            if len(f) >= 6 and f[1] in ("Int", "Float", "String"):
                syms[(insym, f[0])] = (f[1], f[2], f[-1])
            continue
        for m in re.finditer(r"(\d+):([0-9A-F]+)", s):
            if seg is not None and fil is not None:
                entries.append((seg, fil, int(m.group(1)), int(m.group(2), 16)))
    return entries, syms


RE_SYM = re.compile(r"([* ])([^\s:|]+)(?:\s*\[[^\]]*\])? :\s+(\S+) ([-CDIXYBPRO])\s*\|")


def parse_listing_symbols(lst, radix):
    """{name: (text value, segment letter)} from the listing's symbol table (integers only are compared)."""
    out = {}
    txt = lst.decode("latin1")
    i = txt.find("Symbol Table (* = unused)")
    if i < 0:
        return out
    j = txt.find("symbols\n", i)
    body = txt[i:j if j > 0 else len(txt)]
    for m in RE_SYM.finditer(body):
        out[m.group(2)] = (m.group(3), m.group(4))
        # the same name may exist globally and in sections: all of its values
        out.setdefault(("all", m.group(2)), []).append((m.group(3), m.group(4)))
    return out


def parse_share(sh, fmt):
    out = {}
    for ln in (sh or b"").decode("latin1").split("\n"):
        if fmt == "-a":
            m = re.match(r"^(\S+) (equ|set) (\S+)", ln)
            if m:
                out[m.group(1)] = (m.group(3), m.group(2))
        elif fmt == "-c":
            m = re.match(r"^#define (\S+) (\S+)", ln)
            if m:
                out[m.group(1)] = (m.group(2), "equ")
        elif fmt == "-p":
            m = re.match(r"^(\S+) = (\S+);", ln)
            if m:
                out[m.group(1)] = (m.group(2), "equ")
    return out


def share_int(txt, fmt):
    try:
        if fmt == "-a":
            t = txt.upper()
            if t.endswith("H"):
                return int(t[:-1], 16)
            return int(t)
        if fmt == "-c":
            return int(txt, 0)
        if fmt == "-p":
            return int(txt[1:], 16) if txt.startswith("$") else int(txt)
    except ValueError:
        return None
    return None


def parse_noice(noi):
    """([(file, line, absolute address)], {symbol: value}) of a NoICE command file."""
    entries, defs = [], {}
    fil = start = None
    for ln in (noi or b"").split(b"\n"):
        w = ln.decode("latin1").split()
        if not w:
            continue
        try:
            if w[0] == "FILE" and len(w) >= 3:
                fil, start = w[1], int(w[2], 16)
            elif w[0] == "LINE" and len(w) >= 3 and fil is not None:
                entries.append((fil, int(w[1]), start + int(w[2], 16)))
            elif w[0] == "ENDFILE":
                fil = None
            elif w[0] == "DEFINE" and len(w) >= 3:
                defs.setdefault(w[1], []).append(int(w[2], 16))
        except ValueError:
            entries.append((fil, -1, -1))  # unreadable entry: matches nothing
    return entries, defs


def parse_atmel(obj):
    """[(address, code word, file index, line, inmacro)] and file names of an Atmel object file, None if malformed."""
    if obj is None or len(obj) < 26:
        return None
    fnpos, recpos = struct.unpack(">II", obj[:8])
    if obj[8] != 9 or obj[10:26] != b"AVR Object File\0" or recpos != 26 or fnpos < recpos or fnpos > len(obj) or (fnpos - recpos) % 9:
        return None
    recs = []
    for o in range(recpos, fnpos, 9):
        a = int.from_bytes(obj[o:o + 3], "big")
        code, = struct.unpack(">H", obj[o + 3:o + 5])
        line, = struct.unpack(">H", obj[o + 6:o + 8])
        recs.append((a, code, obj[o + 5], line, obj[o + 8]))
    names = obj[fnpos:].split(b"\0")
    return recs, [n.decode("latin1") for n in names if n]


RE_SETTABLE = re.compile(rb"^([A-Za-z_.$@][\w.$@]*):?[ \t]+(?:set|eval)\b|^([A-Za-z_.$@][\w.$@]*)[ \t]*:=", re.I | re.M)


def check_run(r, name, outdir, radix, sharefmt, files_trace, acc, label, settable=None):
    """All four rules for one assembled file of a run.  files_trace: the F section of the trace for it."""
    vs = []
    p = r.files.get("%s/%s.p" % (outdir, name))
    lst = r.files.get("%s/%s.lst" % (outdir, name))
    mp = r.files.get("%s/%s.map" % (outdir, name))
    sh = r.files.get("%s/%s.inc" % (outdir, name)) if sharefmt in ("-a", "-p") else r.files.get("%s/%s.h" % (outdir, name))
    if p is None or files_trace is None or not files_trace["passes"]:
        acc["stats"]["no_code_file"] = acc["stats"].get("no_code_file", 0) + 1
        return vs, False
    last = files_trace["passes"][-1]
    final = [x for x in files_trace["recs"] if x["pass"] == last]
    # rule 1: trace == code file
    try:
        cf = codefile.parse(p)
    except codefile.FormatError as e:
        return [("C19/malformed-code-file", str(e))], False
    fs = []
    for rc in cf.records:
        base = rc.start * rc.gran
        fs += [(rc.seg, base + i, v) for i, v in enumerate(rc.data)]
    ts = []
    for x in final:
        if not x["dp"] and x["w"] and x["seg"] < 11:
            base = x["pc"] * x["gran"]
            ts += [(x["seg"], base + i, v) for i, v in enumerate(x["w"])]
    if sorted(fs) != sorted(ts):
        # RetractWords users remove words again after emission; tolerate when the file is a sub-multiset
        from collections import Counter
        cfs, cts = Counter(fs), Counter(ts)
        if any(cfs[k] > cts[k] for k in cfs):
            vs.append(("C19/trace-vs-code-file", "%s: code file holds bytes the emission trace does not have (%d vs %d bytes)" % (label, len(fs), len(ts))))
            return vs, False
        acc["probes"]["retracted_words"] = acc["probes"].get("retracted_words", 0) + 1
        return vs, False  # trace is not an exact witness here (retracted words): skip the dependent rules
    nontrivial = False
    # rule 2: listing is a sub-sequence of the trace
    if lst is not None:
        L = parse_listing(lst, radix)
        matched_recs = set()
        ti = 0
        code_recs = [x for x in final if x["raw"] and not x["dp"]]
        for line, addr, words, field, conts in L:
            if len(words) * 3 > LISTLINESPACE:
                pass
            got = [v for _, v in words]
            found = None
            near = None
            k = ti
            while k < len(code_recs):
                x = code_recs[k]
                if x["line"] == line:
                    want_addr = (x["pc"] + x["phase"]) & 0xFFFFFFFFFFFFFFFF
                    expv = [v for _, v in words_of(x, x["lgran"])]
                    if near is None:
                        near = (x, want_addr, expv)
                    if addr in (want_addr, want_addr & 0xFFFFFFFF) and got == expv[:len(got)]:
                        found = k
                        break
                k += 1
            if found is None:
                if near is None:
                    vs.append(("C19/listing-line-without-code", "%s: listing line %d shows code '%s' at %x but no (further) final-pass emission for that line exists"
                               % (label, line, field.decode("latin1").strip(), addr)))
                elif addr not in (near[1], near[1] & 0xFFFFFFFF):
                    vs.append(("C19/listing-address", "%s: line %d listed at %x; the next emission of that line is at %x (load %x + phase %x)"
                               % (label, line, addr, near[1], near[0]["pc"], near[0]["phase"])))
                else:
                    vs.append(("C19/listing-bytes", "%s: line %d lists %s, emitted %s" % (label, line, ["%x" % v for v in got[:8]], ["%x" % v for v in near[2][:8]])))
                break
            ti = found + 1
            matched_recs.add(id(x))
            items = words_of(x, x["lgran"])
            for first_item, caddr in conts:
                nbytes = sum(g for g, _ in items[:first_item])
                if caddr is None or nbytes % x["gran"]:
                    continue
                acc["probes"]["continuation_lines_checked"] = acc["probes"].get("continuation_lines_checked", 0) + 1
                want_c = (want_addr + nbytes // x["gran"]) & 0xFFFFFFFFFFFFFFFF
                if caddr not in (want_c, want_c & 0xFFFFFFFF):
                    vs.append(("C19/listing-continuation-address", "%s: line %d: the continuation line starting with item %d shows address %x, that item is at %x"
                               % (label, line, first_item, caddr, want_c)))
                    break
            if vs:
                break
            acc["probes"]["listing_lines_matched"] = acc["probes"].get("listing_lines_matched", 0) + 1
            if len(got) > 6:
                nontrivial = True
    # rule 2b: a main-file source line that the listing shows at all must show the code emitted for it (outside of
    # macro/repetition expansions, whose lines may be suppressed): it must not show something else in the code column
    if lst is not None and not vs:
        main_rows = {}
        for ln in lst.split(b"\n"):
            if b"Symbol Table (* = unused)" in ln:
                break
            m = RE_LST.match(ln)
            if m and ln.startswith(b"   "):
                main_rows.setdefault(int(m.group(1)), []).append(m.group(4)[:LISTLINESPACE])
        mainfile = files_trace["name"]
        for x in final:
            if x["raw"] and not x["dp"] and not x["inmac"] and x["file"] == mainfile and x["line"] in main_rows and id(x) not in matched_recs:
                rows = main_rows[x["line"]]
                if any(r.strip() for r in rows):
                    vs.append(("C19/listed-line-shows-no-code", "%s: source line %d is listed, emitted %d byte(s) at %x, but its code column shows %r"
                               % (label, x["line"], len(x["raw"]), x["pc"] + x["phase"], [r.decode("latin1").strip() for r in rows][:3])))
                    break
                acc["probes"]["listed_line_blank_code_column"] = acc["probes"].get("listed_line_blank_code_column", 0) + 1
    # rule 2c: a listed main-file line that only reserves space shows the address at which the reservation starts
    if lst is not None and not vs:
        row_addr = {}
        for ln in lst.split(b"\n"):
            if b"Symbol Table (* = unused)" in ln:
                break
            m = RE_LST.match(ln)
            if m and ln.startswith(b"   "):
                row_addr.setdefault(int(m.group(1)), []).append((to_radix(m.group(2).decode("latin1"), radix), m.group(4)[:LISTLINESPACE]))
        per_line = {}
        for x in final:
            if x["file"] == files_trace["name"]:
                per_line.setdefault(x["line"], []).append(x)
        for line, xs in per_line.items():
            if len(xs) == 1 and xs[0]["dp"] and xs[0]["clen"] > 0 and not xs[0]["inmac"] and len(row_addr.get(line, [])) == 1:
                la, col = row_addr[line][0]
                if la is None or col.strip():
                    continue
                acc["probes"]["reservation_lines_checked"] = acc["probes"].get("reservation_lines_checked", 0) + 1
                want = (xs[0]["pc"] + xs[0]["phase"]) & 0xFFFFFFFFFFFFFFFF
                if la not in (want, want & 0xFFFFFFFF):
                    vs.append(("C19/listing-reservation-address", "%s: line %d reserves %d unit(s) at %x, the listing shows it at %x" % (label, line, xs[0]["clen"], want, la)))
                    break
    # rule 3n: NoICE line entries and symbol definitions (code segment only)
    noi = r.files.get("%s/%s.noi" % (outdir, name))
    if noi is not None:
        entries, defs = parse_noice(noi)
        idx = {}
        for x in final:
            if x["seg"] == 1:
                idx.setdefault((x["line"], x["pc"]), []).append(x["file"])
        for fil, line, addr in entries:
            acc["probes"]["noice_entries_checked"] = acc["probes"].get("noice_entries_checked", 0) + 1
            cands = idx.get((line, addr))
            if not cands or not any(c == fil or c.endswith("/" + fil) or fil.endswith("/" + c) for c in cands):
                vs.append(("C19/noice-line-entry", "%s: NoICE file says line %d of %s starts at %X, no final-pass emission record in CODE matches" % (label, line, fil, addr)))
                break
        lsyms = parse_listing_symbols(lst, radix) if lst is not None else {}
        for nm, dvs in defs.items():
            dv = dvs[0]
            # names defined once only: a name that exists globally and inside sections is listed / defined several times
            if len(dvs) == 1 and nm in lsyms and len(lsyms[("all", nm)]) == 1 and lsyms[nm][1] == "C":
                acc["probes"]["symbols_listing_vs_noice"] = acc["probes"].get("symbols_listing_vs_noice", 0) + 1
                lv = to_radix(lsyms[nm][0], radix)
                if lv is not None and (lv & 0xFFFFFFFFFFFFFFFF) != dv:
                    vs.append(("C19/symbol-listing-vs-noice", "%s: symbol %s is %s in the listing, %X in the NoICE file" % (label, nm, lsyms[nm][0], dv)))
                    break
        if entries:
            nontrivial = True
    # rule 3a: Atmel object file: one record per addressable unit of CODE, holding that unit's value
    obj = r.files.get("%s/%s.obj" % (outdir, name))
    if obj is not None:
        pa = parse_atmel(obj)
        if pa is None:
            vs.append(("C19/atmel-object-malformed", "%s: header / record area of the Atmel object file is inconsistent (%d bytes)" % (label, len(obj))))
        else:
            units = {}
            for x in final:
                if x["seg"] != 1:
                    continue
                g = x["gran"]
                n = x["clen"]
                for z in range(max(n, 1)):
                    if x["dp"] or not x["raw"] or n == 0:
                        v = 0
                    else:
                        v = int.from_bytes(x["raw"][z * g:z * g + g], "little") & 0xFFFF
                    units.setdefault((x["pc"] + z, x["line"] & 0xFFFF), set()).add(v)
            for a, code, fi, line, inmac in pa[0]:
                acc["probes"]["atmel_records_checked"] = acc["probes"].get("atmel_records_checked", 0) + 1
                have = units.get((a, line))
                if have is None:
                    vs.append(("C19/atmel-line-record", "%s: Atmel record says line %d emitted the unit at %X, no final-pass emission record matches" % (label, line, a)))
                    break
                if code not in have:
                    vs.append(("C19/atmel-code-word", "%s: Atmel record for %X (line %d) holds %04X, the statement emitted %s there" % (label, a, line, code, sorted("%04X" % h for h in have))))
                    break
            if pa[0]:
                nontrivial = True
    # rule 3: MAP line info
    if mp is not None:
        entries, msyms = parse_map(mp)
        idx = {}
        for x in final:
            idx.setdefault((x["seg"], x["line"], x["pc"]), []).append(x["file"])
        for seg, fil, line, addr in entries:
            acc["probes"]["map_entries_checked"] = acc["probes"].get("map_entries_checked", 0) + 1
            sn = SEGNAMES.get(seg)
            cands = idx.get((sn, line, addr))
            if not cands or not any(c == fil or c.endswith("/" + fil) or fil.endswith("/" + c) for c in cands):
                vs.append(("C19/map-line-entry", "%s: MAP says %s line %d of %s starts at %X, no final-pass emission record matches" % (label, seg, line, fil, addr)))
                break
        if len({e[0] for e in entries}) >= 2:
            nontrivial = True
        # rule 4: symbols
        lsyms = parse_listing_symbols(lst, radix) if lst is not None else {}
        shs = parse_share(sh, sharefmt) if sh is not None else {}
        for (seg, nm), (typ, val, chg) in msyms.items():
            if typ != "Int":
                continue
            try:
                mv = int(val, 16)
            except ValueError:
                continue
            if nm in lsyms and len(lsyms[("all", nm)]) == 1:
                acc["probes"]["symbols_listing_vs_map"] = acc["probes"].get("symbols_listing_vs_map", 0) + 1
                lv = to_radix(lsyms[nm][0], radix)
                lh = to_radix(lsyms[nm][0], 16)  # target-specific symbol kinds (e.g. 8051 bit addresses) are always listed in hex
                if lv is not None and (lv & 0xFFFFFFFFFFFFFFFF) != (mv & 0xFFFFFFFFFFFFFFFF) and lh != mv:
                    vs.append(("C19/symbol-listing-vs-map", "%s: symbol %s is %s in the listing, %s in the MAP file" % (label, nm, lsyms[nm][0], val)))
                    break
            for snm, (sval, kind) in shs.items():
                if snm.upper() == nm and chg == "0" and kind != "set":
                    sv = share_int(sval, sharefmt)
                    acc["probes"]["symbols_share_vs_map"] = acc["probes"].get("symbols_share_vs_map", 0) + 1
                    if sv is not None and (sv & 0xFFFFFFFFFFFFFFFF) != (mv & 0xFFFFFFFFFFFFFFFF):
                        vs.append(("C19/symbol-share-vs-map", "%s: symbol %s is %s in the share file, %s in the MAP file" % (label, nm, sval, val)))
        if any(x["phase"] for x in final):
            nontrivial = True
    # rule 4b: share file vs the listing's symbol table (which, unlike the MAP file, also has the symbols outside every
    # segment: plain constants).  Symbols that the source (re)assigns with SET / EVAL / := are left out: SHARED writes the
    # value they have at that statement.
    if sh is not None and lst is not None and not vs:
        lsyms = parse_listing_symbols(lst, radix)
        for snm, (sval, kind) in parse_share(sh, sharefmt).items():
            nm = snm.upper()
            if nm in (settable or ()) or nm not in lsyms or len(lsyms[("all", nm)]) != 1 or lsyms[nm][1] not in "-CDIXYBPRO":
                continue
            lv = to_radix(lsyms[nm][0], radix)
            sv = share_int(sval, sharefmt)
            if lv is None or sv is None:
                continue
            acc["probes"]["symbols_share_vs_listing"] = acc["probes"].get("symbols_share_vs_listing", 0) + 1
            lh = to_radix(lsyms[nm][0], 16)
            if (sv & 0xFFFFFFFFFFFFFFFF) != (lv & 0xFFFFFFFFFFFFFFFF) and (lh is None or (sv & 0xFFFFFFFFFFFFFFFF) != (lh & 0xFFFFFFFFFFFFFFFF)):
                vs.append(("C19/symbol-share-vs-listing", "%s: symbol %s is %s in the share file, %s in the listing's symbol table" % (label, nm, sval, lsyms[nm][0])))
                break
    return vs, nontrivial


GENX = ["\tphase %d\nphl:\tdb 1,2\n\tdephase", "\tdb 1,2,3,4,5,6,7,8,9,10,11,12,13,14", "\tdw 1,2,3,4,5,6,7,8,9"]
# single lines that produce more code than the code writer's buffer holds, on targets with and without word swapping
BIGLINES = ["\tcpu 68000\n\torg $1000\n\tdc.w [256]$1234\n\tdc.w 1\n\tdc.w [300]$55aa\n\tdc.l [130]$12345678\n\tdc.b [600]7\n\tdc.w 2\n",
            "\tcpu z80\n\torg 100h\n\tdb 600 dup (1,2)\n\tdb 3\n\tdw 300 dup (1234h)\n",
            "\tcpu 9900\n\torg >100\n\tdata 1,2,3\n\tbyte 1\n\tdata 4\n", "\tcpu 68000\n\tdc.b [511]1\n\tdc.b [512]2\n\tdc.b [513]3\n\tdc.w [255]4,5\n"]


def plan(tier, seed):
    thorough = tier == "thorough"
    cases = []
    for t in corpus.tests():
        for j in range(10 if thorough else 2):
            cases.append({"gen": "corpus", "test": t.name, "seed": mix(seed, "c19", t.name, j)})
    n = 50000 if thorough else 600
    for i in range(0, n, 20):
        cases.append({"gen": "gen", "seed": mix(seed, "c19g", i), "n": 20})
    return cases


def build_scenario(rng, main_name, disk, flags, pred=None):
    radix = rng.choice([16, 16, 16, 10, 8, 2, rng.randint(2, 36), rng.randint(2, 36)])
    sharefmt = rng.choice(["-a", "-c", "-p"])
    extra = rng.choice([0, 0, 1])
    env = {"LANG": "C", "ASL_VERIF_TRACE": "/w/run.trc"}
    if extra:
        env["ASL_VERIF_EXTRA_PASSES"] = str(extra)
    if rng.chance(0.4):
        # the code writer's private buffer (hook H3): with a small one every line takes the flush / write-through legs that
        # normally need a line of 512 bytes or more; what it does to the code arrays is what the listing prints afterwards
        env["ASL_VERIF_CODEBUF"] = str(rng.choice([1, 2, 3, 7, 64, 511, 513]))
    files = []
    d = dict(disk)
    if pred is not None:
        d.update(pred["disk"])
        files.append(pred["main"])
    files.append("/w/t/%s.asm" % main_name)
    dbg = rng.choice(["MAP"] * 6 + ["NOICE", "NOICE", "ATMEL", "ATMEL"])
    argv = list(flags) + ["-q", "-i", "/sim/inc", "-i", "/w/t", "-L", "-g", dbg, sharefmt]
    if radix != 16:
        argv += ["-listradix", str(radix)]
    argv += files
    sc = dict(argv=argv, cwd="/w", dirs=["/w", "/w/t", "/w/p", "/w/t/sub"], disk=d, env=env, max_events=1400000, cpu=100)
    return sc, radix, sharefmt, extra


def run_one(sim, sc, name, radix, sharefmt, acc, label, variant):
    r, san = sim.run("asl", sc, variant)
    acc["runs"] += 1
    acc["sim_us"] += r.sim_us
    acc["shapes"].add(r.hash)
    cls = oracle.classify("asl", r, san)
    if cls and "/hang/" in cls:
        acc["stats"]["not_judged_budget"] = acc["stats"].get("not_judged_budget", 0) + 1
        return [], False, r
    if cls:
        return [("C19/abnormal/" + cls, r.outcome)], False, r
    tr = parse_trace(r.files.get("/w/run.trc"))
    ft = None
    for f in tr:
        if f["name"].endswith("/%s.asm" % name) or f["name"] == "%s.asm" % name:
            ft = f
    settable = set()
    for k, v in sc.get("disk", {}).items():
        if isinstance(v, bytes):
            for m in RE_SETTABLE.finditer(v):
                settable.add((m.group(1) or m.group(2)).decode("latin1").upper())
    vs, nt = check_run(r, name, "/w/t", radix, sharefmt, ft, acc, label, settable)
    return vs, nt, r


def line_entries(r, name, outdir="/w/t"):
    """The (file, line, address) facts of whichever debug file the run wrote, in a comparable form."""
    mp = r.files.get("%s/%s.map" % (outdir, name))
    if mp is not None:
        return ("map", sorted(parse_map(mp)[0]))
    noi = r.files.get("%s/%s.noi" % (outdir, name))
    if noi is not None:
        return ("noice", sorted(parse_noice(noi)[0]))
    obj = r.files.get("%s/%s.obj" % (outdir, name))
    if obj is not None:
        pa = parse_atmel(obj)
        return ("atmel", sorted(pa[0]) if pa else None)
    return (None, None)


def final_newline_pair(sim, sc, name, r, variant, acc):
    """Metamorphic companion run: the same sources with the newline after their last line taken away.  The emission trace
    cannot witness line numbers (it reports the assembler's own counter), two runs of equivalent sources can: their
    line:address facts must be the same."""
    disk2 = {}
    changed = False
    for k, v in sc["disk"].items():
        if isinstance(v, bytes) and k.startswith("/w/") and v.endswith(b"\n") and not v.endswith(b"\n\n") and b"\0" not in v and not k.endswith((".bin", ".p")):
            disk2[k] = v[:-1]
            changed = True
        else:
            disk2[k] = v
    if not changed:
        return []
    sc2 = dict(sc)
    sc2["disk"] = disk2
    r2, san2 = sim.run("asl", sc2, variant)
    acc["runs"] += 1
    acc["faults"]["final_newline_removed"] = acc["faults"].get("final_newline_removed", 0) + 1
    if oracle.classify("asl", r2, san2) or r2.outcome != r.outcome:
        if r2.outcome != r.outcome and not oracle.classify("asl", r2, san2):
            return [("C19/outcome-depends-on-final-newline", "%s: %s with, %s without the newline after the last line" % (name, r.outcome, r2.outcome))]
        return []
    a, b = line_entries(r, name), line_entries(r2, name)
    if a[0] and a != b:
        da = [x for x in (a[1] or []) if x not in (b[1] or [])][:2]
        db = [x for x in (b[1] or []) if x not in (a[1] or [])][:2]
        return [("C19/line-entries-depend-on-final-newline", "%s (%s): with the final newline %s, without it %s" % (name, a[0], da, db))]
    return []


def run_case(sim, case):
    acc = {"runs": 0, "sim_us": 0, "shapes": set(), "keys": [], "stats": {}, "faults": {}, "probes": {}}
    if case.get("kind") == "explicit":
        sc = scenario_from_json(case["scenario"])
        vs, nt, r = run_one(sim, sc, case["name"], case["radix"], case["sharefmt"], acc, case["name"], case.get("variant", "plain"))
        if case.get("nonl") and not vs:
            vs = vs + final_newline_pair(sim, sc, case["name"], r, case.get("variant", "plain"), acc)
        seen = {}
        for c, d in vs:
            seen.setdefault(c, d)
        return {"violations": [{"class": c, "detail": d} for c, d in seen.items()], "case": case, "digest": r.digest(), "runs": 1, "sim_us": r.sim_us}
    rng = Rng(case["seed"])
    out = []
    seen = set()
    sample = None
    tests = corpus.tests()

    def one(name, disk, flags, big):
        nonlocal sample
        pred = None
        if rng.chance(0.25):
            pt = rng.choice([t for t in tests if tuple(t.flags) == tuple(flags)] or tests)
            if tuple(pt.flags) == tuple(flags) and pt.src.count(b"\n") < 8000:
                pd = {k.replace("/w/t/", "/w/p/"): v for k, v in local_disk(pt, "/w/t").items()}
                pred = {"disk": pd, "main": "/w/p/%s.asm" % pt.name}
        sc, radix, sharefmt, extra = build_scenario(rng, name, disk, flags, pred)
        if big:
            sc["argv"] = [a for a in sc["argv"] if a not in ("-g", "MAP", "NOICE", "ATMEL")]
        variant = "asan" if rng.chance(0.05) else "plain"
        vs, nt, r = run_one(sim, sc, name, radix, sharefmt, acc, name, variant)
        c = {"kind": "explicit", "scenario": scenario_to_json(sc), "name": name, "radix": radix, "sharefmt": sharefmt, "variant": variant}
        if not big and not vs and rng.chance(0.25):
            c["nonl"] = True
            vs = vs + final_newline_pair(sim, sc, name, r, variant, acc)
        acc["keys"].append((int(chash(c), 16), 1 if (nt or extra or pred) else 0))
        if extra:
            acc["faults"]["extra_pass"] = acc["faults"].get("extra_pass", 0) + 1
        if pred:
            acc["faults"]["predecessor_file"] = acc["faults"].get("predecessor_file", 0) + 1
        acc["faults"]["radix_%d" % radix] = acc["faults"].get("radix_%d" % radix, 0) + 1
        for cls, detail in vs:
            if cls not in seen:
                seen.add(cls)
                out.append({"class": cls, "detail": detail, "case": c, "digest": r.digest()})
        sample = {"program": name, "argv": sc["argv"], "extra_passes": extra, "predecessor": pred["main"] if pred else None}

    if case["gen"] == "corpus":
        t = corpus.by_name(case["test"])
        one(t.name, local_disk(t, "/w/t"), list(t.flags), t.src.count(b"\n") > 8000)
    else:
        for _ in range(case["n"]):
            if rng.chance(0.06):
                one("gen", {"/w/t/gen.asm": rng.choice(BIGLINES).encode()}, [], False)
                continue
            src = gen_program(rng)
            # listing-control variations: statements that fill the listing's alternative column (SET, IF, macro calls)
            # inside expansions whose lines are suppressed, followed by ordinary code lines
            lines = src.split("\n")
            ctl = rng.choice(["", "", "\tmacexp off", "\tmacexp_dft noif,nomacro", "\tmacexp_dft nomacro", "\tlisting noskipped", "\tlisting purecode"])
            dbs = lines[0].split()[-1]
            dbs = {"z80": "db", "8051": "db", "6502": "byt", "6809": "fcb"}.get(dbs, "db")
            extra = ["cnt\tset 0", "bump\tmacro", "cnt\tset cnt+1", "\tif cnt>1", "\t%s 9" % dbs, "\tendif", "\tendm"]
            if ctl:
                extra.insert(0, ctl)
            body = []
            for ln in lines[2:]:
                body.append(ln)
                if ln.startswith("\t") and rng.chance(0.2) and not ln.startswith(("\tif", "\telse", "\tendif", "\trept", "\tendm", "\tshared")):
                    body.append("\tbump")
                    body.append("\t%s cnt" % dbs)
            src = "\n".join(lines[:2] + extra + body)
            if rng.chance(0.5):
                src = src.replace("\tshared", "\tphase 4096\nphl:\tdb 1,2\n\tdephase\n\tshared", 1) if "\tshared" in src else src + "\tphase 4096\nphl:\tdb 1,2\n\tdephase\n"
            gdisk = {}
            if rng.chance(0.3):
                # code in include files: a line entry names the file its line is in.  Names that differ in case only are
                # different files here, as are equal names in two directories
                n1, n2 = rng.choice([("blk.inc", "BLK.INC"), ("tab.inc", "Tab.inc"), ("one.inc", "two.inc"), ("blk.inc", "sub/blk.inc"),
                                     ("gen.inc", "GEN.INC")])
                gdisk["/w/t/" + n1] = ("\t%s 21h\n\t%s 22h,23h\n" % (dbs, dbs)).encode()
                gdisk["/w/t/" + n2] = ("; second file\n\n\n\t%s 31h\n\t%s 32h\n" % (dbs, dbs)).encode()
                src += "\n\tinclude \"%s\"\n\tinclude \"%s\"\n" % ((n1, n2) if rng.chance(0.7) else (n2, n1))
                if rng.chance(0.3):
                    src += "\tinclude \"%s\"\n" % n1
            gdisk["/w/t/gen.asm"] = src.encode()
            one("gen", gdisk, [], False)
    return {"violations": out, "runs": acc["runs"], "sim_us": acc["sim_us"], "shapes": sorted(acc["shapes"]), "keys": acc["keys"],
            "stats": acc["stats"], "faults": acc["faults"], "probes": acc["probes"], "sample": sample}
