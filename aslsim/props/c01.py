"""C01 - multipass assembly ends at a fixpoint with every reference resolved.

The pass loop is a schedule the simulator owns (hook H1): ASL_VERIF_EXTRA_PASSES forces further passes after
convergence, ASL_VERIF_MAX_PASSES turns a pass livelock into exit 97 with a per-pass state trace.
G1: synthetic layouts (5 targets) with auto-sized references around the size thresholds, decoded by an
independent per-target decoder; G2: the golden corpus under 0-3 forced extra passes (code file and MAP symbol
section must not change).
"""
import re

from .. import codefile, corpus, oracle
from ..driver import chash, ddmin
from ..rng import Rng, mix
from ..sim import scenario_from_json, scenario_to_json
from .c17 import local_disk

ID = "C01"
LEVEL = "exploration"
VARIANTS = ("plain", "asan")
EVAL_RUNS = True
RULE = ("G1: generated layouts (6502, 6809, 68HC11, 68000, 8086; <=40 items: labels with markers, fillers biased to put "
        "distances at 126..130, 254..258, 32766..32770 and the direct-page limit; about 70 operand forms: auto-sized absolute "
        "references (direct/extended, abs.w/abs.l), short and long branches, bit-test-and-branch, d16(PC)/d8(PC,Xn)/n,PCR, "
        "indirect and immediate forms, data words, self- and PC-references, odd-length data before labels on 68000, ASSUME DPR "
        "in mid-file on 6809; 4% of range-limited references aim at any label and must then be rejected) x forced extra "
        "passes 0..2; G2: every golden program x extra passes {0,1,2,3}, and golden programs cut after a seeded number of "
        "lines x {0,1}; G3: every probe program followed by every state-setting statement x {0,1(,2)}. non-trivial = needed "
        ">=2 passes or runs under forced extra passes; distinct by (program, schedule) content hash")
COMPONENTS = {"real": ["asl: all repository code incl. hooks H1 (pass schedule), H4 (pass trace)"],
              "stubbed": ["storage below FILE*", "clock", "environment", "cwd"], "untouched": ["glibc stdio", "libm"]}
ASSUMPTIONS = ["decoder tables for the instruction forms used are transcribed from the manufacturers' manuals",
               "generated programs are free of WHILE/recursive macros/MOMPASS/READ; golden programs mentioning MOMPASS are skipped",
               "a run that ends with errors and without code file is not a violation (spurious 'jump distance too big' is documented)",
               "pass cap hit without a repeated per-pass state is counted as inconclusive, not alarmed"]

MARK = [0xA5, 0x5A]


# ------------------------------------------------------------------ targets
class T:
    pass


def _t6502():
    t = T()
    t.name, t.cpu, t.org, t.be, t.align = "6502", "6502", [0x10, 0xE0, 0x200, 0x8000], False, 1
    t.byte, t.word, t.res = "byt", "adr", "dfs"
    # name -> list of (opcode bytes, operand kind); operand kinds: z8 (zero/direct page), a16, r8
    t.forms = {"jmp": [([0x4C], "a16")], "jsr": [([0x20], "a16")], "lda": [([0xA5], "z8"), ([0xAD], "a16")],
               "sta": [([0x85], "z8"), ([0x8D], "a16")], "bne": [([0xD0], "r8")], "beq": [([0xF0], "r8")],
               "bcc": [([0x90], "r8")], "bmi": [([0x30], "r8")], "bvs": [([0x70], "r8")], "bpl": [([0x10], "r8")], "bcs": [([0xB0], "r8")],
               "ldx": [([0xA6], "z8"), ([0xAE], "a16")], "lda.x": [([0xB5], "z8"), ([0xBD], "a16")], "jmp.ind": [([0x6C], "a16")],
               "inc": [([0xE6], "z8"), ([0xEE], "a16")], "cpx": [([0xE4], "z8"), ([0xEC], "a16")]}
    t.short = {"bne", "beq", "bcc", "bmi", "bvs", "bpl", "bcs"}
    t.alias = {"lda.x": "lda", "jmp.ind": "jmp"}
    t.prefix = {"jmp.ind": "("}
    t.suffix = {"lda.x": ",x", "jmp.ind": ")"}
    t.maxlen = {"jmp": 3, "jsr": 3, "lda": 3, "sta": 3, "bne": 2, "beq": 2, "bcc": 2, "bmi": 2, "bvs": 2, "bpl": 2, "bcs": 2, "ldx": 3, "lda.x": 3,
                "jmp.ind": 3, "inc": 3, "cpx": 3}
    return t


def _t65ce02():
    """65CE02: the short page is the base page selected by ASSUME B:n; abs,Y loads/stores, JMP and JSR have no short form."""
    t = _t6502()
    t.name, t.cpu = "65ce02", "65ce02"
    # (its conditional branches grow into a 16-bit relative form of their own: left to the plain 6502 target)
    t.forms = {k: v for k, v in t.forms.items() if k not in t.short}
    t.short = set()
    t.forms.update({"lda.y": [([0xB9], "a16")], "sta.y": [([0x99], "a16")], "adc.y": [([0x79], "a16")], "ldx.y": [([0xB6], "z8"), ([0xBE], "a16")]})
    t.alias = dict(t.alias, **{"lda.y": "lda", "sta.y": "sta", "adc.y": "adc", "ldx.y": "ldx"})
    t.suffix = dict(t.suffix, **{"lda.y": ",y", "sta.y": ",y", "adc.y": ",y", "ldx.y": ",y"})
    t.maxlen = dict(t.maxlen, **{"lda.y": 3, "sta.y": 3, "adc.y": 3, "ldx.y": 3})
    t.assume = "b"
    return t


def _t6809():
    t = T()
    t.name, t.cpu, t.org, t.be, t.align = "6809", "6809", [0x10, 0xE0, 0x400, 0x8000], True, 1
    t.byte, t.word, t.res = "fcb", "fdb", "rmb"
    t.forms = {"lda": [([0x96], "z8"), ([0xB6], "a16")], "ldx": [([0x9E], "z8"), ([0xBE], "a16")],
               "jmp": [([0x0E], "z8"), ([0x7E], "a16")], "jsr": [([0x9D], "z8"), ([0xBD], "a16")],
               "bra": [([0x20], "r8")], "bne": [([0x26], "r8")], "lbra": [([0x16], "r16")], "lbsr": [([0x17], "r16")],
               # program-counter relative indexed operands, 8 or 16 bit offset chosen by the assembler
               "lda.pcr": [([0xA6, 0x8C], "r8"), ([0xA6, 0x8D], "r16")], "leax.pcr": [([0x30, 0x8C], "r8"), ([0x30, 0x8D], "r16")],
               "jmp.pcr": [([0x6E, 0x8C], "r8"), ([0x6E, 0x8D], "r16")]}
    t.forms.update({"bsr": [([0x8D], "r8")], "lbne": [([0x10, 0x26], "r16")],
                    "lda.ind": [([0xA6, 0x9F], "a16")], "jmp.ind": [([0x6E, 0x9F], "a16")], "lda.ext": [([0xB6], "a16")],
                    "ldd": [([0xDC], "z8"), ([0xFC], "a16")], "std": [([0xDD], "z8"), ([0xFD], "a16")], "ldy": [([0x10, 0x9E], "z8"), ([0x10, 0xBE], "a16")]})
    t.short = {"bra", "bne", "bsr"}
    t.near16 = {"lbra", "lbsr", "lbne", "lda.pcr", "leax.pcr", "jmp.pcr"}
    t.alias = {"lda.pcr": "lda", "leax.pcr": "leax", "jmp.pcr": "jmp", "lda.ind": "lda", "jmp.ind": "jmp", "lda.ext": "lda"}
    t.prefix = {"lda.ind": "[", "jmp.ind": "[", "lda.ext": ">"}
    t.suffix = {"lda.pcr": ",pcr", "leax.pcr": ",pcr", "jmp.pcr": ",pcr", "lda.ind": "]", "jmp.ind": "]"}
    t.maxlen = {"lda": 3, "ldx": 3, "jmp": 3, "jsr": 3, "bra": 2, "bne": 2, "lbra": 3, "lbsr": 3, "lda.pcr": 4, "leax.pcr": 4, "jmp.pcr": 4, "bsr": 2, "lbne": 4, "lda.ind": 4, "jmp.ind": 4, "lda.ext": 3, "ldd": 3, "std": 3, "ldy": 4}
    return t


def _t6811():
    t = T()
    t.name, t.cpu, t.org, t.be, t.align = "68hc11", "6811", [0x10, 0xE0, 0x400, 0x8000], True, 1
    t.byte, t.word, t.res = "fcb", "fdb", "rmb"
    t.forms = {"ldaa": [([0x96], "z8"), ([0xB6], "a16")], "ldx": [([0xDE], "z8"), ([0xFE], "a16")],
               "jmp": [([0x7E], "a16")], "jsr": [([0x9D], "z8"), ([0xBD], "a16")], "bra": [([0x20], "r8")], "bne": [([0x26], "r8")],
               "bsr": [([0x8D], "r8")], "ldd": [([0xDC], "z8"), ([0xFC], "a16")], "std": [([0xDD], "z8"), ([0xFD], "a16")],
               "ldy": [([0x18, 0xDE], "z8"), ([0x18, 0xFE], "a16")], "inc": [([0x7C], "a16")],
               # bit test and branch: the displacement is the fourth byte
               "brset.d": [([0x12, 0x10, 0x01], "r8")], "brclr.d": [([0x13, 0x10, 0x01], "r8")], "brset.x": [([0x1E, 0x05, 0x02], "r8")]}
    t.short = {"bra", "bne", "bsr", "brset.d", "brclr.d", "brset.x"}
    t.alias = {"brset.d": "brset", "brclr.d": "brclr", "brset.x": "brset"}
    t.prefix = {"brset.d": "$10,#1,", "brclr.d": "$10,#1,", "brset.x": "5,x,#2,"}
    t.maxlen = {"ldaa": 3, "ldx": 3, "jmp": 3, "jsr": 3, "bra": 2, "bne": 2, "bsr": 2, "brset.d": 4, "brclr.d": 4, "brset.x": 4, "ldd": 3, "std": 3, "ldy": 4, "inc": 3}
    return t


def _t68k():
    t = T()
    t.name, t.cpu, t.org, t.be, t.align = "68000", "68000", [0x100, 0x1000, 0x7F00, 0x7FF0], True, 2
    t.byte, t.word, t.res = "dc.b", "dc.w", "ds.b"
    t.forms = {"bra": [([0x60], "b68")], "bsr": [([0x61], "b68")], "bne": [([0x66], "b68")], "beq": [([0x67], "b68")],
               "jmp": [([0x4E, 0xF8], "w16"), ([0x4E, 0xF9], "l32")], "jsr": [([0x4E, 0xB8], "w16"), ([0x4E, 0xB9], "l32")],
               "lea": [([0x41, 0xF8], "w16"), ([0x41, 0xF9], "l32")], "move.w": [([0x30, 0x38], "w16"), ([0x30, 0x39], "l32")],
               # d16(PC) operands: the displacement counts from the extension word, wherever in the instruction it sits
               "lea.pc": [([0x41, 0xFA], "pcw")], "jmp.pc": [([0x4E, 0xFA], "pcw")], "jsr.pc": [([0x4E, 0xBA], "pcw")],
               "pea.pc": [([0x48, 0x7A], "pcw")], "move.pc": [([0x30, 0x3A], "pcw")], "btsti.pc": [([0x08, 0x3A, 0x00, 0x03], "pcw")],
               "btstd.pc": [([0x03, 0x3A], "pcw")], "cmp.pc": [([0xB0, 0x7A], "pcw")], "movem.pc": [([0x4C, 0xBA, 0x00, 0x03], "pcw")],
               "dbra": [([0x51, 0xC8], "pcw")], "move.imm": [([0x20, 0x3C], "l32")], "lea.pcx": [([0x41, 0xFB, 0x00], "pcx8")],
               "cmpa.imm": [([0xB3, 0xFC], "l32")]}
    t.near16 = {"lea.pc", "jmp.pc", "jsr.pc", "pea.pc", "move.pc", "btsti.pc", "btstd.pc", "cmp.pc", "movem.pc", "dbra"}
    t.alias = {"lea.pc": "lea", "jmp.pc": "jmp", "jsr.pc": "jsr", "pea.pc": "pea", "move.pc": "move.w", "btsti.pc": "btst", "btstd.pc": "btst",
               "cmp.pc": "cmp.w", "movem.pc": "movem.w", "move.imm": "move.l", "lea.pcx": "lea", "cmpa.imm": "cmpa.l"}
    t.prefix = {"btsti.pc": "#3,", "btstd.pc": "d1,", "dbra": "d0,", "move.imm": "#", "cmpa.imm": "#"}
    t.short = {"lea.pcx"}
    t.maxlen = {"bra": 4, "bsr": 4, "bne": 4, "beq": 4, "jmp": 6, "jsr": 6, "lea": 6, "move.w": 6, "lea.pc": 4, "jmp.pc": 4, "jsr.pc": 4, "pea.pc": 4,
                "move.pc": 4, "btsti.pc": 6, "btstd.pc": 4, "cmp.pc": 4, "movem.pc": 6, "dbra": 4, "move.imm": 6, "lea.pcx": 4, "cmpa.imm": 6}
    t.suffix = {"lea": ",a0", "move.w": ",d0", "lea.pc": "(pc),a0", "jmp.pc": "(pc)", "jsr.pc": "(pc)", "pea.pc": "(pc)", "move.pc": "(pc),d0",
                "btsti.pc": "(pc)", "btstd.pc": "(pc)", "cmp.pc": "(pc),d0", "movem.pc": "(pc),d0/d1", "move.imm": ",d0", "lea.pcx": "(pc,d0.w),a0",
                "cmpa.imm": ",a1"}
    return t


def _t8086():
    t = T()
    t.name, t.cpu, t.org, t.be, t.align = "8086", "8086", [0x100, 0x1000, 0x7F00], False, 1
    t.byte, t.word, t.res = "db", "dw", "ds"
    t.forms = {"jmp": [([0xEB], "r8"), ([0xE9], "r16")], "call": [([0xE8], "r16")], "jz": [([0x74], "r8")], "jnz": [([0x75], "r8")],
               "loop": [([0xE2], "r8")], "jcxz": [([0xE3], "r8")], "jc": [([0x72], "r8")], "jg": [([0x7F], "r8")],
               "mov.mem": [([0x2E, 0xA1], "a16"), ([0xA1], "a16")],  # label in CODE: CS: override prefix
                "lea": [([0x8D, 0x1E], "a16")], "mov.imm": [([0xBB], "a16")]}
    t.short = {"jz", "jnz", "loop", "jcxz", "jc", "jg"}
    t.alias = {"mov.mem": "mov", "mov.imm": "mov"}
    t.prefix = {"mov.mem": "ax,word ptr [", "lea": "bx,[", "mov.imm": "bx,"}
    t.suffix = {"mov.mem": "]", "lea": "]"}
    t.maxlen = {"jmp": 3, "call": 3, "jz": 2, "jnz": 2, "loop": 2, "jcxz": 2, "jc": 2, "jg": 2, "mov.mem": 4, "lea": 4, "mov.imm": 3}
    return t


TARGETS = {x.name: x for x in (_t6502(), _t65ce02(), _t6809(), _t6811(), _t68k(), _t8086())}
FILL_LENS = [1, 2, 3, 5, 20, 100, 120, 124, 125, 126, 127, 128, 129, 130, 200, 250, 252, 253, 254, 255, 256, 257, 258, 300]
BIG_FILL = [32700, 32760, 32764, 32766, 32768, 32770]


# ------------------------------------------------------------------ generator
def gen_layout(rng, tname=None):
    """Items: ('label', id) ('fill', n) ('ref', mnem, id) ('dataref', id, width) ('bytes', [..]) ('align', n)."""
    t = TARGETS[tname or rng.choice(sorted(TARGETS))]
    org = rng.choice(t.org)
    nlab = rng.randint(2, 8)
    items = []
    for i in range(nlab):
        items.append(("label", i))
    nother = rng.randint(3, 32)
    big_used = False
    for _ in range(nother):
        k = rng.below(10)
        if k <= 4:
            mn = rng.choice(sorted(t.forms))
            items.append(("ref", mn, rng.below(nlab)))
        elif k <= 6:
            if not big_used and rng.chance(0.08) and org < 0x7000:
                n = rng.choice(BIG_FILL)
                big_used = True
            else:
                n = rng.choice(FILL_LENS) if rng.chance(0.6) else rng.randint(1, 40)
            items.append(("fill", n))
        elif k == 7:
            r7 = rng.below(4)
            if r7 == 0:
                items.append(("selfref", len(items), rng.choice([0, 1])))  # label (own or preceding line) + data word holding it
            elif r7 == 1:
                items.append(("pcref",))  # data word holding the current PC
            else:
                items.append(("dataref", rng.below(nlab), 2))
        elif k == 8:
            n = rng.choice([1, 1, 3, 2, 5]) if t.align == 2 else rng.randint(1, 4)
            items.append(("bytes", [rng.below(256) for _ in range(n)]))
        else:
            if t.name == "68000" and rng.chance(0.5):
                items.append(("dataref", rng.below(nlab), 4))
            else:
                items.append(("align", rng.choice([2, 4, 16])))
    if t.name in ("6809", "65ce02") and rng.chance(0.5):
        # direct-page assumptions in mid-file: state that is set by a statement and must start afresh in every pass
        for _ in range(rng.randint(1, 3)):
            items.append(("assume", rng.choice([org >> 8, (org >> 8) + 1, 0, (org >> 8) + rng.below(3)]) & 0xFF))
    rng.shuffle(items)
    if rng.chance(0.3):
        # a reference, a filler of critical length and the label it refers to, right next to each other (either order):
        # distances of exactly 126..130, 254..258 bytes between the instruction and its target
        lab = rng.below(nlab)
        sized = [m for m in sorted(t.forms) if len(t.forms[m]) > 1 or m in t.short or t.forms[m][0][1] == "b68"]
        mn = rng.choice(sized or sorted(t.forms))  # statements whose size or validity depends on the distance
        fill = ("fill", rng.choice([122, 123, 124, 125, 126, 127, 128, 129, 130, 131, 250, 251, 252, 253, 254, 255, 256, 257, 258]))
        items = [it for it in items if not (it[0] == "label" and it[1] == lab)]
        at = rng.randint(0, len(items))
        trio = [("ref", mn, lab), fill, ("label", lab)] if rng.chance(0.6) else [("label", lab), fill, ("ref", mn, lab)]
        items[at:at] = trio
    # worst-case positions (max sizes) to keep short-only branches encodable
    def maxsize(it):
        if it[0] == "label":
            return 4 + (1 if t.align == 2 else 0)
        if it[0] == "fill":
            return it[1] + 1
        if it[0] == "ref":
            return t.maxlen[it[1]] + (1 if t.align == 2 else 0)
        if it[0] == "dataref":
            return it[2] + 1
        if it[0] in ("selfref", "pcref"):
            return 3
        if it[0] == "bytes":
            return len(it[1])
        if it[0] in ("assume", "phase", "dephase", "detour"):
            return 0
        return it[1]
    pos = [0]
    for it in items:
        pos.append(pos[-1] + maxsize(it))
    labpos = {it[1]: pos[i] for i, it in enumerate(items) if it[0] == "label"}
    total = pos[-1]
    out = []
    for i, it in enumerate(items):
        if it[0] == "ref" and (it[1] in t.short or (t.name == "68000" and it[1] in ("bra", "bsr", "bne", "beq"))
                               or (t.name == "8086" and it[1] in ("jmp", "call")) or it[1] in getattr(t, "near16", ())):
            lim = 100 if it[1] in t.short else 30000
            if rng.chance(0.04):
                # any label, in range or not: an unreachable target has to be rejected, never encoded into something else
                out.append(it)
                continue
            cands = [l for l, p in labpos.items() if abs(p - pos[i]) <= lim]
            if not cands:
                # no encodable target: use an absolute form instead
                alt = [m for m in sorted(t.forms) if m not in t.short and not (t.name in ("68000", "8086") and m in ("bra", "bsr", "bne", "beq", "jmp", "call"))
                       and m not in getattr(t, "near16", ())]
                if not alt:
                    continue
                out.append(("ref", rng.choice(alt), it[2]))
                continue
            out.append(("ref", it[1], rng.choice(cands)))
        else:
            out.append(it)
    if org + total > 0xFFF0:
        org = 0x100
    if rng.chance(0.25) and len(out) >= 3:
        # part of the program is assembled for another address than it is loaded at: labels in there have their execution
        # address, padding and page decisions follow it too
        i = rng.randint(0, len(out) - 2)
        j = rng.randint(i + 1, len(out))
        out[j:j] = [("dephase",)]
        out[i:i] = [("phase", rng.choice([1, 3, 16, 255, 256, 4096, 2, 0x801]))]
    if t.name == "8086" and rng.chance(0.3) and out:
        # a visit to another segment in a SAVE / RESTORE frame: the code behind RESTORE carries on in CODE where it stopped
        for _ in range(rng.randint(1, 2)):
            out.insert(rng.randint(0, len(out)), ("detour", rng.choice(["data", "data", "io"]), rng.randint(1, 9)))
    lay = {"target": t.name, "org": org, "items": [list(x) if not isinstance(x, list) else x for x in out], "nlab": nlab}
    if rng.chance(0.15):
        # -Y: branch-range errors of a pass that is repeated anyway are thrown away instead of ending the run
        lay["flags"] = ["-Y"]
    if rng.chance(0.3):
        # some labels live in a SECTION of their own and are reached from outside through PUBLIC (plain name) or GLOBAL
        # (qualified alias section_label): symbol-table entries that exist beside the label proper
        lay["export"] = {str(i): rng.choice(["public", "global"]) for i in range(nlab) if rng.chance(0.4)}
    return lay


def render(lay):
    t = TARGETS[lay["target"]]
    L = ["\tcpu %s" % t.cpu, "\torg %d" % lay["org"]]
    exp = lay.get("export", {})

    def nm(i):
        return "sx%d_l%d" % (i, i) if exp.get(str(i)) == "global" else "l%d" % i
    for it in lay["items"]:
        k = it[0]
        if k == "label":
            if str(it[1]) in exp:
                L.append("\tsection sx%d\n\t%s l%d" % (it[1], exp[str(it[1])], it[1]))
            if t.align == 2:
                # word data: after odd-length byte data the assembler pads and must move the label (label fix-up)
                L.append("l%d:\t%s %d,%d" % (it[1], t.word, (MARK[0] << 8) | MARK[1], (it[1] << 8) | (255 - it[1])))
            else:
                L.append("l%d:\t%s %d,%d,%d,%d" % (it[1], t.byte, MARK[0], MARK[1], it[1], 255 - it[1]))
            if str(it[1]) in exp:
                L.append("\tendsection sx%d" % it[1])
        elif k == "fill":
            L.append("\t%s %d" % (t.res, it[1]))
        elif k == "ref":
            sfx = getattr(t, "suffix", {}).get(it[1], "")
            L.append("\t%s %s%s%s" % (getattr(t, "alias", {}).get(it[1], it[1]), getattr(t, "prefix", {}).get(it[1], ""), nm(it[2]), sfx))
        elif k == "dataref":
            L.append("\t%s %s" % ("dc.l" if it[2] == 4 else t.word, nm(it[1])))
        elif k == "selfref":
            if it[2]:
                L.append("s%d:\t%s s%d" % (it[1], t.word, it[1]))
            else:
                L.append("s%d:\n\t%s s%d" % (it[1], t.word, it[1]))
        elif k == "pcref":
            L.append("\t%s %s" % (t.word, "*" if t.name in ("6502", "65ce02", "6809", "68hc11", "68000") else "$"))
        elif k == "bytes":
            L.append("\t%s %s" % (t.byte, ",".join(str(v) for v in it[1])))
        elif k == "align":
            L.append("\talign %d" % it[1])
        elif k == "assume":
            L.append("\tassume %s:%d" % (getattr(t, "assume", "dpr"), it[1]))
        elif k == "phase":
            L.append("\tphase %s+%d" % ("*" if t.name in ("6502", "65ce02", "6809", "68hc11", "68000") else "$", it[1]))
        elif k == "dephase":
            L.append("\tdephase")
        elif k == "detour":
            L.append("\tsave\n\tsegment %s\n\tdb %d dup (?)\n\trestore" % (it[1], it[2]))
    # reference table of every label
    for i in range(lay["nlab"]):
        L.append("\t%s %s" % (t.word, nm(i)))
    return "\n".join(L) + "\n"


# ------------------------------------------------------------------ decoder
class DecodeError(Exception):
    pass


def decode(lay, img):
    """Sequential decode of the emitted image from the generator's item list.  Returns (label address dict,
    [(item index, description, referenced value, label id)])."""
    t = TARGETS[lay["target"]]
    a = lay["org"]
    labels = {}
    refs = []

    def rd(addr, n):
        try:
            return [img[addr + i] for i in range(n)]
        except KeyError:
            raise DecodeError("no code byte at address $%x" % next(addr + i for i in range(n) if addr + i not in img))

    def val(bs):
        v = 0
        for b in (bs if t.be else bs[::-1]):
            v = (v << 8) | b
        return v

    def s(v, bits):
        return v - (1 << bits) if v & (1 << (bits - 1)) else v

    items = list(lay["items"]) + [["dataref", i, 2] for i in range(lay["nlab"])]
    ph = 0
    dpr = 0  # direct page in force: 0 at the start of the file, then what the last ASSUME above the statement said
    for idx, it in enumerate(items):
        k = it[0]
        if t.align == 2 and ((a + ph) & 1) and k in ("ref", "dataref", "label", "selfref", "pcref"):
            # automatic padding before word-sized objects (pad byte is emitted as 0 or reserved)
            a += 1
        if k == "label":
            # the label's address is where its marker sits (after any padding on word-aligned targets)
            m = rd(a, 4)
            if m != [MARK[0], MARK[1], it[1], 255 - it[1]]:
                raise DecodeError("marker of l%d not found at $%x (found %s)" % (it[1], a, m))
            labels[it[1]] = a + ph
            a += 4
        elif k == "fill":
            a += it[1]
        elif k == "bytes":
            got = rd(a, len(it[1]))
            if got != it[1]:
                raise DecodeError("data bytes at $%x are %s, source says %s" % (a, got, it[1]))
            a += len(it[1])
        elif k == "align":
            a = (a + ph + it[1] - 1) // it[1] * it[1] - ph  # ALIGN works on the execution address
        elif k == "assume":
            dpr = it[1]
        elif k == "phase":
            ph = it[1]  # PHASE *+n: execution address = load address + n until DEPHASE
        elif k == "dephase":
            ph = 0
        elif k == "detour":
            pass
        elif k == "dataref":
            w = it[2]
            refs.append((idx, "data word", val(rd(a, w)), it[1], a))
            a += w
        elif k in ("selfref", "pcref"):
            # the word must hold its own address (= the label moved behind any padding, resp. the PC)
            labels[("self", idx)] = a + ph
            refs.append((idx, "data self-reference" if k == "selfref" else "data PC-reference", val(rd(a, 2)), ("self", idx), a))
            a += 2
        elif k == "ref":
            mn = it[1]
            forms = t.forms[mn]
            done = False
            if t.name == "68000" and forms[0][1] == "b68":
                op = rd(a, 2)
                if op == [0x4E, 0x71]:  # documented: Bcc to the next instruction becomes NOP
                    refs.append((idx, "%s (as NOP)" % mn, a + 2 + ph, it[2], a))
                    a += 2
                    done = True
                elif op[0] == forms[0][0][0]:
                    if op[1] == 0:
                        d = s(val(rd(a + 2, 2)), 16)
                        refs.append((idx, "%s.w" % mn, (a + 2 + d + ph) & 0xFFFFFFFF, it[2], a))
                        a += 4
                    elif op[1] == 0xFF:
                        d = s(val(rd(a + 2, 4)), 32)
                        refs.append((idx, "%s.l" % mn, (a + 2 + d + ph) & 0xFFFFFFFF, it[2], a))
                        a += 6
                    else:
                        refs.append((idx, "%s.s" % mn, a + 2 + s(op[1], 8) + ph, it[2], a))
                        a += 2
                    done = True
            else:
                for opc, kind in forms:
                    if rd(a, len(opc)) == opc:
                        p = a + len(opc)
                        if kind == "z8":
                            refs.append((idx, "%s direct" % mn, (dpr << 8) | rd(p, 1)[0], it[2], a))
                            a = p + 1
                        elif kind == "a16":
                            refs.append((idx, "%s extended" % mn, val(rd(p, 2)), it[2], a))
                            a = p + 2
                        elif kind == "w16":
                            refs.append((idx, "%s abs.w" % mn, s(val(rd(p, 2)), 16) & 0xFFFFFFFF, it[2], a))
                            a = p + 2
                        elif kind == "l32":
                            refs.append((idx, "%s abs.l" % mn, val(rd(p, 4)), it[2], a))
                            a = p + 4
                        elif kind == "pcx8":
                            # brief extension word: the displacement byte counts from the extension word's address
                            refs.append((idx, "%s d8(PC,Xn)" % mn, (p - 1 + s(rd(p, 1)[0], 8) + ph) & 0xFFFFFFFF, it[2], a))
                            a = p + 1
                        elif kind == "pcw":
                            refs.append((idx, "%s d16(PC)" % mn, (p + s(val(rd(p, 2)), 16) + ph) & 0xFFFFFFFF, it[2], a))
                            a = p + 2
                            if mn == "movem.pc":
                                pass
                        elif kind == "r8":
                            refs.append((idx, "%s rel8" % mn, (p + 1 + s(rd(p, 1)[0], 8) + ph) & 0xFFFF, it[2], a))
                            a = p + 1
                        elif kind == "r16":
                            refs.append((idx, "%s rel16" % mn, (p + 2 + s(val(rd(p, 2)), 16) + ph) & 0xFFFF, it[2], a))
                            a = p + 2
                        done = True
                        break
            if not done:
                raise DecodeError("item %d (%s l%d): unexpected opcode bytes %s at $%x" % (idx, mn, it[2], rd(a, 2), a))
    return labels, refs


# ------------------------------------------------------------------ running
def asl_scenario(src, extra, cap, name="a", flags=(), disk=None, cwd="/w", dirs=None, want_map=True, trace=True):
    env = {"LANG": "C", "ASL_VERIF_MAX_PASSES": str(cap)}
    if extra:
        env["ASL_VERIF_EXTRA_PASSES"] = str(extra)
    if trace:
        env["ASL_VERIF_TRACE"] = "/w/run.trc"
    d = dict(disk or {})
    if src is not None:
        d["/w/%s.asm" % name] = src
    argv = list(flags) + ["-q", "-i", "/sim/inc"] + (["-g", "MAP"] if want_map else []) + ["%s.asm" % name]
    sc = dict(argv=argv, cwd=cwd, disk=d, env=env, max_events=1400000, cpu=60)
    if dirs:
        sc["dirs"] = dirs
    return sc


def pass_trace(r):
    """[(pass, errors, warnings, repass, symhash)] from the hook's trace file."""
    out = []
    for ln in (r.files.get("/w/run.trc") or b"").split(b"\n"):
        if ln.startswith(b"P "):
            f = ln.split()
            out.append((int(f[1]), int(f[2]), int(f[3]), int(f[4]), f[5].decode()))
    return out


def emit_lengths(r):
    """{pass: {line: total emitted length}} from the hook's E records (main file only)."""
    out = {}
    for ln in (r.files.get("/w/run.trc") or b"").split(b"\n"):
        if ln.startswith(b"E "):
            f = ln.split()
            try:
                ps, line, clen = int(f[1]), int(f[3]), int(f[11])
            except (ValueError, IndexError):
                continue
            d = out.setdefault(ps, {})
            d[line] = d.get(line, 0) + clen
    return out


def cycle_kinds(lay, r, period):
    """Statement kinds whose emitted length differs between two passes of the detected cycle."""
    el = emit_lengths(r)
    if not el:
        return "?"
    last = max(el)
    a, b = el.get(last, {}), el.get(last - 1, {})
    kinds = set()
    for line in set(a) | set(b):
        if a.get(line) != b.get(line):
            idx = line - 3  # two header lines, items start at source line 3
            if 0 <= idx < len(lay["items"]):
                it = lay["items"][idx]
                if it[0] == "ref":  # only size-variable statements can drive a cycle; the rest just moves along
                    kinds.add(it[1])
    return "+".join(sorted(kinds)) or "none"


def map_symbols(m):
    if m is None:
        return None
    i = m.find(b"Symbols in Segment")
    return m[i:] if i >= 0 else b""


def judge_termination(r, tr):
    """exit 97: violation only when a per-pass state repeats (same symbol hash in two passes)."""
    hashes = [x[4] for x in tr]
    rep = len(hashes) != len(set(hashes[1:])) + (1 if hashes else 0)
    seen = {}
    period = None
    for i, h in enumerate(hashes):
        if h in seen:
            period = i - seen[h]
        seen[h] = i
    return period


def check_layout(sim, lay, extras, variant, acc):
    src = render(lay).encode()
    nvar = sum(1 for it in lay["items"] if it[0] == "ref")
    cap = max(24, 8 + 2 * nvar)
    vio = []
    files = {}
    passes0 = None
    for e in extras:
        sc = asl_scenario(src, e, cap + e, flags=lay.get("flags", ()))
        r, san = sim.run("asl", sc, variant)
        acc["runs"] += 1
        acc["sim_us"] += r.sim_us
        acc["shapes"].add(r.hash)
        cls = oracle.classify("asl", r, san, allow_exit97=True)
        if cls and "/hang/" in cls:
            acc["stats"]["not_judged_budget"] = acc["stats"].get("not_judged_budget", 0) + 1
            continue
        if cls:
            vio.append(("C01/abnormal/" + cls, r.outcome))
            continue
        tr = pass_trace(r)
        if e:
            acc["faults"]["extra_pass"] = acc["faults"].get("extra_pass", 0) + e
        if r.kind == 0 and r.code == 97:
            period = judge_termination(r, tr)
            if period:
                kinds = cycle_kinds(lay, r, period)
                vio.append(("C01/livelock/%s/{%s}/period%d" % (lay["target"], kinds, period),
                            "pass cap %d reached, per-pass symbol state repeats with period %d; statements whose size differs between the "
                            "passes of the cycle: %s" % (cap + e, period, kinds)))
            else:
                acc["probes"]["cap_hit_inconclusive"] = acc["probes"].get("cap_hit_inconclusive", 0) + 1
            continue
        p = r.get("/w/a.p")
        if r.outcome != "exit:0" or p is None:
            acc["stats"]["rejected"] = acc["stats"].get("rejected", 0) + 1
            if b"jump distance" in r.stderr or b"distance" in r.stderr:
                acc["probes"]["rejected_jump_distance"] = acc["probes"].get("rejected_jump_distance", 0) + 1
            acc["last_reject"] = r.stderr[:160].decode("latin1")
            files[e] = None
            continue
        npass = len(tr)
        if e == 0:
            passes0 = npass
            acc["stats"]["passes_%s" % (npass if npass < 5 else "5+")] = acc["stats"].get("passes_%s" % (npass if npass < 5 else "5+"), 0) + 1
        files[e] = (p, map_symbols(r.get("/w/a.map")))
        # resolution
        try:
            cf = codefile.parse(p)
            img, dups = codefile.image(cf)
            labels, refs = decode(lay, img.get(1, {}))
            for idx, what, value, lab, at in refs:
                if lab not in labels:
                    continue
                want = labels[lab]
                if value != want:
                    vio.append(("C01/unresolved/%s/%s" % (lay["target"], what.split()[0]),
                                "%s at $%x encodes $%x but %s is at $%x (extra passes %d, %d passes)"
                                % (what, at, value, ("l%d" % lab) if isinstance(lab, int) else "its own label / the PC", want, e, npass)))
                    break
            for it in lay["items"]:
                if it[0] == "ref":
                    pass
        except codefile.FormatError as ex:
            vio.append(("C01/malformed-code-file", str(ex)))
        except DecodeError as ex:
            vio.append(("C01/undecodable/%s" % lay["target"], "%s (extra passes %d)" % (ex, e)))
    # idempotence
    base = files.get(0)
    for e in extras:
        if e and e in files and base is not None and files[e] is not None:
            if files[e][0] != base[0]:
                vio.append(("C01/extra-pass-changes-code/%s" % lay["target"], "code file after %d forced extra pass(es) differs from the converged one" % e))
            elif files[e][1] != base[1]:
                vio.append(("C01/extra-pass-changes-symbols/%s" % lay["target"], "MAP symbol section after %d forced extra pass(es) differs" % e))
        if e and e in files and base is not None and files[e] is None:
            vio.append(("C01/extra-pass-fails/%s" % lay["target"], "assembles, but fails when %d further pass(es) are run" % e))
    nontrivial = (passes0 or 0) >= 2
    return vio, nontrivial


def plan(tier, seed):
    thorough = tier == "thorough"
    n = 400000 if thorough else 6000
    per = 25
    cases = [{"gen": "layout", "seed": mix(seed, "c01", i), "n": per} for i in range(0, n, per)]
    for t in corpus.tests():
        if re.search(rb"mompass|\bread\b", t.src, re.I):
            continue
        cases.append({"gen": "corpus", "test": t.name, "extras": [0, 1, 2, 3] if thorough else [0, 1, 2]})
    # golden programs stopped after a seeded number of lines: the state reached there must not leak into the next pass
    for t in corpus.tests():
        nl = t.src.count(b"\n")
        if nl < 8 or nl > 8000 or re.search(rb"mompass|\bread\b", t.src, re.I):
            continue
        r = Rng(mix(seed, "c01cut", t.name))
        for cutl in sorted(set(r.randint(4, nl) for _ in range(40 if thorough else 4))):
            cases.append({"gen": "corpus", "test": t.name, "extras": [0, 1], "cut": cutl})
    # every probe followed by every state-setting statement, under forced extra passes
    npl = len(passleak_pairs())
    for lo in range(0, npl, 40):
        cases.append({"gen": "passleak", "lo": lo, "hi": min(npl, lo + 40), "extras": [0, 1, 2] if thorough else [0, 1]})
    return cases


def run_case(sim, case):
    acc = {"runs": 0, "sim_us": 0, "shapes": set(), "keys": [], "stats": {}, "faults": {}, "probes": {}}
    if case.get("kind") == "layout":
        vio, nt = check_layout(sim, case["layout"], case["extras"], case.get("variant", "plain"), acc)
        seen = {}
        for c, d in vio:
            seen.setdefault(c, d)
        return {"violations": [{"class": c, "detail": d} for c, d in seen.items()], "case": case, "runs": acc["runs"],
                "sim_us": acc["sim_us"], "digest": chash(sorted(acc["shapes"]))}
    if case.get("kind") == "corpus-explicit" or case.get("gen") == "corpus":
        return run_corpus(sim, case, acc)
    if case.get("gen") == "passleak":
        return run_passleak(sim, case, acc)
    rng = Rng(case["seed"])
    out = []
    seen = set()
    sample = None
    for _ in range(case["n"]):
        lay = gen_layout(rng)
        variant = "asan" if rng.chance(0.04) else "plain"
        extras = [0, rng.choice([1, 1, 2])]
        vio, nt = check_layout(sim, lay, extras, variant, acc)
        c = {"kind": "layout", "layout": lay, "extras": extras, "variant": variant}
        acc["keys"].append((int(chash(c), 16), 1 if nt else 0))
        for cls, detail in vio:
            if cls not in seen:
                seen.add(cls)
                out.append({"class": cls, "detail": detail, "case": c, "digest": None})
        sample = {"target": lay["target"], "org": lay["org"], "source": render(lay).split("\n")[:12], "extra_passes": extras[1]}
    return {"violations": out, "runs": acc["runs"], "sim_us": acc["sim_us"], "shapes": sorted(acc["shapes"]), "keys": acc["keys"],
            "stats": acc["stats"], "faults": acc["faults"], "probes": acc["probes"], "sample": sample}


def run_corpus(sim, case, acc):
    t = corpus.by_name(case["test"])
    extras = case["extras"]
    disk = local_disk(t, "/w/t")
    cut = case.get("cut")
    tname = t.name
    if cut is not None:
        # the program stops after `cut` lines: whatever state its statements have set by then is what the next pass meets
        disk = dict(disk)
        disk["/w/t/%s.asm" % t.name] = b"\n".join(t.src.split(b"\n")[:cut]) + b"\n"
        tname = "%s@%d" % (t.name, cut)
    vio = []
    res = {}
    for e in extras:
        env = {"LANG": "C", "ASL_VERIF_MAX_PASSES": str(40 + e), "ASL_VERIF_TRACE": "/w/run.trc"}
        if e:
            env["ASL_VERIF_EXTRA_PASSES"] = str(e)
        big = t.src.count(b"\n") > 8000  # line-info bookkeeping of -g is quadratic in the number of lines
        sc = dict(argv=list(t.flags) + ["-q", "-i", "/sim/inc"] + ([] if big else ["-g", "MAP"]) + ["%s.asm" % t.name], cwd="/w/t", dirs=["/w", "/w/t"],
                  disk=disk, env=env, max_events=1400000, cpu=100)
        r, san = sim.run("asl", sc, "plain")
        acc["runs"] += 1
        acc["sim_us"] += r.sim_us
        acc["shapes"].add(r.hash)
        acc["keys"].append((int(chash([tname, e]), 16), 1 if e else 0))
        if e:
            acc["faults"]["extra_pass"] = acc["faults"].get("extra_pass", 0) + e
        cls = oracle.classify("asl", r, san, allow_exit97=True)
        if cls and "/hang/" in cls:
            acc["stats"]["not_judged_budget"] = acc["stats"].get("not_judged_budget", 0) + 1
            continue
        if cls:
            vio.append(("C01/abnormal/" + cls, "%s: %s" % (tname, r.outcome)))
            continue
        tr = pass_trace(r)
        if r.kind == 0 and r.code == 97:
            period = judge_termination(r, tr)
            if period:
                vio.append(("C01/livelock/golden/%s" % tname, "%s with %d forced extra pass(es): pass cap reached, symbol state repeats with period %d"
                            % (tname, e, period)))
            else:
                acc["probes"]["cap_hit_inconclusive"] = acc["probes"].get("cap_hit_inconclusive", 0) + 1
            continue
        res[e] = (r.outcome, r.get("/w/t/%s.p" % t.name), map_symbols(r.get("/w/t/%s.map" % t.name)), (r.stderr or b"")[:200])
    base = res.get(0)
    if base is not None and base[0] == "exit:0":
        for e in extras:
            if not e or e not in res:
                continue
            o, p, m, err = res[e]
            if o != "exit:0" or p is None:
                vio.append(("C01/extra-pass-fails/golden/%s" % tname, "%s assembles, but fails when %d further pass(es) are run: %r" % (tname, e, err)))
            elif p != base[1]:
                vio.append(("C01/extra-pass-changes-code/golden/%s" % tname, "%s: code file changes under %d forced extra pass(es) (%d vs %d bytes)" % (tname, e, len(p), len(base[1]))))
            elif m != base[2]:
                vio.append(("C01/extra-pass-changes-symbols/golden/%s" % tname, "%s: MAP symbol section changes under %d forced extra pass(es)" % (tname, e)))
    seen = {}
    for c, d in vio:
        seen.setdefault(c, d)
    ec = {"kind": "corpus-explicit", "test": t.name, "extras": extras}
    if cut is not None:
        ec["cut"] = cut
    return {"violations": [{"class": c, "detail": d, "case": ec} for c, d in seen.items()], "case": ec, "runs": acc["runs"], "sim_us": acc["sim_us"],
            "shapes": sorted(acc["shapes"]), "keys": acc["keys"], "stats": acc["stats"], "faults": acc["faults"], "probes": acc["probes"],
            "sample": {"golden": tname, "extra_passes": extras}, "digest": None}


# ------------------------------------------------------------------ state set late in the file vs. the next pass
def _strip_ifdef(text):
    """Probe text without its IFDEF blocks: whether a symbol defined further down counts as defined is pass-dependent
    by design, and not what this generator is after."""
    out, skip = [], 0
    for ln in text.split("\n"):
        w = ln.split()
        if w and w[0].lower() == "ifdef":
            skip += 1
            continue
        if skip and w and w[0].lower() == "endif":
            skip -= 1
            continue
        if not skip and "nextenum" not in ln and not ln.endswith(" n1") and "lo(" not in ln:
            out.append(ln)  # (the probes' deliberately failing statements are of no use here either)
    return "\n".join(out)


def _image_by_cpu(p):
    """{(header id, segment): {byte address: byte}}: records of another target (of another granularity) never collide."""
    img = {}
    for rc in codefile.parse(p).records:
        m = img.setdefault((rc.cpu, rc.seg), {})
        base = rc.start * rc.gran
        for i, v in enumerate(rc.data):
            m[base + i] = v
    return img


def passleak_pairs():
    from . import c18
    names = sorted(c18.PROBES)
    return [(n, si) for n in names for si in range(len(c18.SETTERS))]


def run_passleak(sim, case, acc):
    """Source = probe followed by one state-setting statement.  The statement is the last thing pass N sees, the probe the
    first thing pass N+1 sees: whatever the statement sets must not reach the probe.  Oracles: forced extra passes change
    neither code nor symbols; the probe's bytes equal those of the probe assembled alone."""
    from . import c18
    pairs = passleak_pairs()
    vio = []
    solo = {}
    ecase = None
    for pi in range(case["lo"], case["hi"]):
        pname, si = pairs[pi]
        probe = _strip_ifdef(c18.PROBES[pname])
        setter = c18.SETTERS[si]
        if pname not in solo:
            r, san = sim.run("asl", asl_scenario(probe.encode("latin1"), 0, 24), "plain")
            acc["runs"] += 1
            p = r.get("/w/a.p")
            solo[pname] = _image_by_cpu(p) if (r.outcome == "exit:0" and p) else None
        if solo[pname] is None:
            acc["stats"]["probe_rejected"] = acc["stats"].get("probe_rejected", 0) + 1
            continue
        src = (probe + "\n" + setter + "\n").encode("latin1")
        res = {}
        for e in case["extras"]:
            r, san = sim.run("asl", asl_scenario(src, e, 24 + e), "plain")
            acc["runs"] += 1
            acc["sim_us"] += r.sim_us
            acc["shapes"].add(r.hash)
            acc["keys"].append((int(chash([pname, si, e]), 16), 1 if e else 0))
            cls = oracle.classify("asl", r, san, allow_exit97=True)
            if cls and "/hang/" not in cls:
                vio.append(("C01/abnormal/" + cls, "%s + %r: %s" % (pname, setter, r.outcome), pname, si))
                break
            res[e] = (r.outcome, r.get("/w/a.p"), map_symbols(r.get("/w/a.map")), len(pass_trace(r)))
            if e:
                acc["faults"]["extra_pass"] = acc["faults"].get("extra_pass", 0) + e
        base = res.get(0)
        if base is None or base[0] != "exit:0" or base[1] is None:
            acc["stats"]["rejected"] = acc["stats"].get("rejected", 0) + 1
            continue
        acc["stats"]["passleak_judged"] = acc["stats"].get("passleak_judged", 0) + 1
        fam = pname
        for e in case["extras"]:
            if not e or e not in res:
                continue
            o, p, m, _n = res[e]
            if o != "exit:0" or p is None:
                vio.append(("C01/late-state/extra-pass-fails/%s" % fam, "%s followed by %r assembles, but fails when %d further pass(es) are run" % (pname, setter, e), pname, si))
            elif p != base[1]:
                vio.append(("C01/late-state/extra-pass-changes-code/%s" % fam, "%s followed by %r: code file changes under %d forced extra pass(es)" % (pname, setter, e), pname, si))
            elif m != base[2]:
                vio.append(("C01/late-state/extra-pass-changes-symbols/%s" % fam, "%s followed by %r: MAP symbols change under %d forced extra pass(es)" % (pname, setter, e), pname, si))
        try:
            img = _image_by_cpu(base[1])
            bad = None
            for seg, mem in solo[pname].items():
                for a, v in mem.items():
                    if img.get(seg, {}).get(a) != v:
                        bad = (seg, a, v, img.get(seg, {}).get(a))
                        break
                if bad:
                    break
            if bad:
                vio.append(("C01/late-state/reaches-earlier-code/%s" % fam,
                            "%s followed by %r (%d passes): byte at (target, segment) %r address $%x is %r, the same text alone gives %r"
                            % (pname, setter[:60], base[3], bad[0], bad[1], bad[3], bad[2]), pname, si))
        except codefile.FormatError as ex:
            vio.append(("C01/malformed-code-file", str(ex), pname, si))
    seen = {}
    for c, d, pn, si in vio:
        seen.setdefault(c, (d, pn, si))
    pall = passleak_pairs()
    return {"violations": [{"class": c, "detail": d, "case": {"gen": "passleak", "lo": pall.index((pn, si)), "hi": pall.index((pn, si)) + 1, "extras": case["extras"]}}
                           for c, (d, pn, si) in seen.items()],
            "case": case, "runs": acc["runs"], "sim_us": acc["sim_us"], "shapes": sorted(acc["shapes"]), "keys": acc["keys"], "stats": acc["stats"],
            "faults": acc["faults"], "probes": acc["probes"], "sample": {"late-state pairs": [case["lo"], case["hi"]]}, "digest": None}


def minimise(sim, case, vclass):
    if case.get("kind") != "layout":
        return case
    lay = case["layout"]

    def holds(items):
        l2 = dict(lay)
        l2["items"] = items
        # labels referenced must exist
        have = {it[1] for it in items if it[0] == "label"}
        for it in items:
            if it[0] == "ref" and it[2] not in have:
                return False
            if it[0] == "dataref" and it[1] not in have:
                return False
        l2["nlab"] = lay["nlab"]
        if any(i not in have for i in range(lay["nlab"])):
            return False
        c = dict(case)
        c["layout"] = l2
        try:
            return vclass in [v["class"] for v in run_case(sim, c)["violations"]]
        except Exception:
            return False

    items = ddmin(lay["items"], holds, max_tests=200)
    l2 = dict(lay)
    l2["items"] = items
    c = dict(case)
    c["layout"] = l2
    return c
