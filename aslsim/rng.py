"""Own PRNG (splitmix64 / xoshiro256**) so that every choice derives from VERIF_SEED
and nothing depends on Python's random module or hash seed."""
M64 = (1 << 64) - 1


def splitmix64(x):
    x = (x + 0x9E3779B97F4A7C15) & M64
    z = x
    z = ((z ^ (z >> 30)) * 0xBF58476D1CE4E5B9) & M64
    z = ((z ^ (z >> 27)) * 0x94D049BB133111EB) & M64
    return x, z ^ (z >> 31)


def _str_int(s):
    h = 1469598103934665603
    for b in str(s).encode():
        h = ((h ^ b) * 1099511628211) & M64
    return h


def mix(*parts):
    """Deterministic 64-bit mix of integers/strings (seed tree)."""
    x = 0x243F6A8885A308D3
    for p in parts:
        v = p if isinstance(p, int) else _str_int(p)
        x, z = splitmix64((x ^ (v & M64)) & M64)
        x = z
    return x


class Rng:
    def __init__(self, seed):
        x = seed & M64
        self.s = []
        for _ in range(4):
            x, z = splitmix64(x)
            self.s.append(z)

    def u64(self):
        s = self.s
        r = (((s[1] * 5) & M64) << 7 | ((s[1] * 5) & M64) >> 57) & M64
        r = (r * 9) & M64
        t = (s[1] << 17) & M64
        s[2] ^= s[0]
        s[3] ^= s[1]
        s[1] ^= s[2]
        s[0] ^= s[3]
        s[2] ^= t
        s[3] = ((s[3] << 45) | (s[3] >> 19)) & M64
        return r

    def below(self, n):
        if n <= 0:
            return 0
        return self.u64() % n

    def randint(self, a, b):
        return a + self.below(b - a + 1)

    def random(self):
        return (self.u64() >> 11) / float(1 << 53)

    def chance(self, p):
        return self.random() < p

    def choice(self, seq):
        return seq[self.below(len(seq))]

    def sample(self, seq, k):
        seq = list(seq)
        out = []
        for _ in range(min(k, len(seq))):
            out.append(seq.pop(self.below(len(seq))))
        return out

    def shuffle(self, lst):
        for i in range(len(lst) - 1, 0, -1):
            j = self.below(i + 1)
            lst[i], lst[j] = lst[j], lst[i]

    def subset(self, seq, p=0.5):
        return [x for x in seq if self.chance(p)]
