"""Worker pool: each worker owns its own fork servers; results are folded in index order by the caller."""
import atexit
import importlib
import multiprocessing
import os
import sys
import traceback

from .sim import Sim

_SIM = None


def get_sim():
    global _SIM
    if _SIM is None:
        _SIM = Sim()
        atexit.register(_SIM.close)
    return _SIM


def _init():
    global _SIM
    _SIM = None


def _call(args):
    modname, fn, case = args
    try:
        mod = importlib.import_module(modname)
        return getattr(mod, fn)(get_sim(), case)
    except Exception:
        return {"machinery_error": traceback.format_exc()}


def nworkers():
    try:
        return int(os.environ.get("VERIF_WORKERS", "0")) or min(16, os.cpu_count() or 4)
    except ValueError:
        return 16


def pmap(modname, fn, cases, chunksize=None):
    """Ordered map of module.fn(sim, case) over cases."""
    cases = list(cases)
    n = nworkers()
    if n <= 1 or len(cases) <= 1:
        for c in cases:
            yield _call((modname, fn, c))
        return
    ctx = multiprocessing.get_context("fork")
    if chunksize is None:
        chunksize = max(1, min(32, len(cases) // (n * 8) or 1))
    with ctx.Pool(n, initializer=_init) as pool:
        for r in pool.imap(_call, [(modname, fn, c) for c in cases], chunksize):
            yield r
