"""aslsim - deterministic simulation of the AS tool chain (see /verif/DESIGN.md)."""
