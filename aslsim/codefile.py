"""Independent reader of AS code files, written from doc/file-formats.md (plus the relocation
record ids of fileformat.h, which the manual does not describe)."""
import struct


class FormatError(Exception):
    pass


class Record:
    __slots__ = ("hdr", "cpu", "seg", "gran", "start", "length", "data", "off", "data_off")

    def __repr__(self):
        return "Rec(hdr=%02x cpu=%02x seg=%d gran=%d start=%x len=%d @%d)" % (
            self.hdr, self.cpu, self.seg, self.gran, self.start, self.length, self.off)


class CodeFile:
    __slots__ = ("records", "entry", "creator", "reloc", "size")


def short_gran(cpu):
    """Granularity implied by a short ($01..$7f) record: from the processor type.  Only the
    families whose CODE granularity differs from 1 matter; table from the manual's remarks."""
    return {0x09: 4, 0x70: 2, 0x71: 2, 0x72: 2, 0x74: 2, 0x75: 2, 0x76: 4, 0x77: 2, 0x7D: 4, 0x7E: 4, 0x7F: 4,
            0x3B: 2, 0x12: 2, 0x4B: 2, 0x47: 1, 0x5A: 4, 0x5B: 4, 0x6B: 2, 0x4F: 2, 0x0A: 2, 0x36: 2,
            0x4D: 2, 0x1A: 2, 0x1B: 2, 0x1C: 2, 0x1D: 2, 0x43: 2, 0x5C: 4, 0x3A: 2, 0x07: 1, 0x25: 1}.get(cpu, 1)


def parse(b, strict=True):
    """Parse a code file.  strict: raise FormatError on any deviation from the documented grammar."""
    cf = CodeFile()
    cf.records, cf.entry, cf.creator, cf.reloc, cf.size = [], None, None, [], len(b)
    if len(b) < 2 or b[0] != 0x89 or b[1] != 0x14:
        raise FormatError("bad magic")
    o = 2
    n = len(b)
    while True:
        if o >= n:
            raise FormatError("no creator record before end of file (offset %d)" % o)
        hdr = b[o]
        roff = o
        o += 1
        if hdr == 0x00:
            cf.creator = b[o:]
            return cf
        if hdr == 0x80:
            if o + 4 > n:
                raise FormatError("truncated entry record at %d" % roff)
            if cf.entry is not None and strict:
                raise FormatError("second entry record at %d" % roff)
            cf.entry = struct.unpack_from("<I", b, o)[0]
            o += 4
            continue
        if hdr == 0x85:  # relocation info: counts then tables (fileformat.h / asmcode.c WrPatches)
            if o + 12 > n:
                raise FormatError("truncated reloc info at %d" % roff)
            cnt, ecnt, slen = struct.unpack_from("<III", b, o)
            o += 12
            need = cnt * 16 + ecnt * 16 + slen
            if o + need > n:
                raise FormatError("truncated reloc tables at %d" % roff)
            cf.reloc.append((roff, cnt, ecnt, b[o:o + need]))
            o += need
            continue
        r = Record()
        r.off = roff
        r.hdr = hdr
        if hdr in (0x81, 0x82, 0x83, 0x84):
            if o + 3 > n:
                raise FormatError("truncated record header at %d" % roff)
            r.cpu, r.seg, r.gran = b[o], b[o + 1], b[o + 2]
            o += 3
        elif 0x01 <= hdr <= 0x7F:
            r.cpu, r.seg, r.gran = hdr, 1, short_gran(hdr)
        else:
            raise FormatError("unknown record header $%02x at %d" % (hdr, roff))
        if o + 6 > n:
            raise FormatError("truncated start/length at %d" % roff)
        r.start, r.length = struct.unpack_from("<IH", b, o)
        o += 6
        if o + r.length > n:
            raise FormatError("record at %d: length %d runs past end of file" % (roff, r.length))
        r.data_off = o
        r.data = b[o:o + r.length]
        o += r.length
        if strict:
            if r.gran not in (1, 2, 4, 8):
                raise FormatError("record at %d: granularity %d" % (roff, r.gran))
            if r.length % r.gran:
                raise FormatError("record at %d: length %d not a multiple of granularity %d" % (roff, r.length, r.gran))
            if r.seg > 9:
                raise FormatError("record at %d: segment %d" % (roff, r.seg))
        cf.records.append(r)


def image(cf):
    """{(seg, gran): {byte_address: byte}} with duplicates detected; byte_address = start*gran + i."""
    img = {}
    dups = []
    for r in cf.records:
        m = img.setdefault(r.seg, {})
        base = r.start * r.gran
        for i, v in enumerate(r.data):
            a = base + i
            if a in m:
                dups.append((r.seg, a))
            m[a] = v
    return img, dups


def build(records, entry=None, creator=b"AS test", short=False):
    """Synthesise a code file (for C03 reference inputs).  records: (cpu, seg, gran, start, data)."""
    out = bytearray(b"\x89\x14")
    for cpu, seg, gran, start, data in records:
        if short and seg == 1 and cpu < 0x80:
            out.append(cpu)
        else:
            out += bytes([0x81, cpu, seg, gran])
        out += struct.pack("<IH", start, len(data)) + bytes(data)
    if entry is not None:
        out += b"\x80" + struct.pack("<I", entry)
    out += b"\x00" + creator
    return bytes(out)
