"""The repository's golden corpus (tests/*/) as simulator scenarios."""
import os
import shlex

from . import build

_cache = {}


class Test:
    __slots__ = ("name", "flags", "src", "ori", "incs", "family")


def tests():
    repo = build.repo_dir()
    if repo in _cache:
        return _cache[repo]
    out = []
    tdir = os.path.join(repo, "tests")
    for t in sorted(os.listdir(tdir)):
        d = os.path.join(tdir, t)
        asm = os.path.join(d, t + ".asm")
        ori = os.path.join(d, t + ".ori")
        if not (os.path.exists(asm) and os.path.exists(ori)):
            continue
        x = Test()
        x.name = t
        fl = os.path.join(d, "asflags")
        x.flags = []
        if os.path.exists(fl):
            line = open(fl, encoding="latin1").readline().strip()
            x.flags = shlex.split(line)
        x.src = open(asm, "rb").read()
        x.ori = open(ori, "rb").read()
        x.incs = sorted(f for f in os.listdir(d) if f not in (t + ".asm", t + ".ori", t + ".doc", "asflags"))
        out.append(x)
    _cache[repo] = out
    return out


def by_name(name):
    for t in tests():
        if t.name == name:
            return t
    raise KeyError(name)


def asl_scenario(t, extra=(), env=None, out="/w", **kw):
    """Scenario assembling golden test t from its (read-only) directory into `out`."""
    argv = list(t.flags) + ["-q", "-i", "/sim/inc"] + list(extra) + [
        t.name + ".asm", "-o", "%s/%s.p" % (out, t.name), "-shareout", "%s/%s.h" % (out, t.name)]
    sc = dict(argv=argv, cwd="/sim/tests/" + t.name, env=dict(env or {"LANG": "C"}))
    sc.update(kw)
    return sc


def p2bin_scenario(name, pfile, out="/w", **kw):
    sc = dict(argv=["-q", "-k", "-l", "0", "-r", "0x-0x", "%s/%s" % (out, name)], cwd=out,
              disk={"%s/%s.p" % (out, name): pfile}, env={"LANG": "C"})
    sc.update(kw)
    return sc
