"""Outcome classification shared by the checks (documented exit codes, signals, sanitizer reports, budgets)."""
import re

from . import build

DOC_EXITS = {"asl": {0, 1, 2, 3, 4, 255}}
DOC_EXITS["dasl"] = {0, 1, 2, 3, 4, 255}  # undocumented tool; follows the assembler's convention (4 = parameter error)
for _p in ("plist", "pbind", "p2bin", "p2hex", "alink"):
    DOC_EXITS[_p] = {0, 1, 2, 3}

_FRAME = re.compile(rb"#\d+ 0x[0-9a-f]+ in (\S+) (\S+?):(\d+)")
_KIND = re.compile(rb"ERROR: AddressSanitizer: (\S+)")


def asan_signature(san):
    """(bug type, function) of the innermost frame inside the repository, or None."""
    if b"ERROR: AddressSanitizer" not in san:
        return None
    m = _KIND.search(san)
    kind = m.group(1).decode() if m else "unknown"
    repo = build.repo_dir().encode() + b"/"
    fn = None
    for fm in _FRAME.finditer(san):
        if fm.group(2).startswith(repo) or fm.group(2).startswith(b"/repo/"):
            fn = fm.group(1).decode()
            break
    if kind.startswith("attempting"):
        kind = "bad-free"
    return kind, fn or "?"


def classify(prog, r, san, allow_exit97=False):
    """None if the outcome is a documented normal exit, else a violation class string."""
    sig = asan_signature(san)
    if sig:
        return "%s/asan/%s/%s" % (prog, sig[0], sig[1])
    if r.kind == 1:
        if r.code == 24:
            return "%s/hang/cpu-limit" % prog
        return "%s/signal%d" % (prog, r.code)
    if r.kind == 3:
        if r.code in (2, 3):
            return None  # the simulator's own file table / arena is full: a resource of the machinery, not judged
        return "%s/hang/budget%d" % (prog, r.code)
    if r.kind == 2:
        return None  # injected crash: the scenario's own doing
    if r.kind == 0:
        if r.code == 98:
            return "%s/hang/line-budget" % prog
        if r.code == 97 and allow_exit97:
            return None
        if r.code == 77:
            return "%s/asan/unparsed" % prog
        if r.code not in DOC_EXITS[prog]:
            return "%s/exit%d" % (prog, r.code)
    return None
