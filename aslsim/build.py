"""Out-of-tree builds of the repository under test with hooks on and simrt linked in."""
import fcntl
import hashlib
import os
import shutil
import subprocess
import sys
import time

VERIF = os.path.dirname(os.path.dirname(os.path.abspath(__file__)))
BUILD_ROOT = os.path.join(VERIF, "build")
GUARD = "FLAMEWING_ASL_VERIF"
WRAPS = "main,fopen,unlink,remove,stat,fstat,getcwd,time,gettimeofday,localtime"
PROGS = ("asl", "plist", "pbind", "p2bin", "p2hex", "alink", "dasl")


def repo_dir():
    return os.path.abspath(os.environ.get("VERIF_REPO", "/repo"))


def _variant_dir(variant):
    repo = repo_dir()
    if repo == "/repo":
        return os.path.join(BUILD_ROOT, variant)
    tag = hashlib.sha1(repo.encode()).hexdigest()[:8]
    return os.path.join(BUILD_ROOT, "%s-%s" % (variant, tag))


def _run(cmd, log, **kw):
    with open(log, "ab") as f:
        f.write(("\n$ %s\n" % " ".join(cmd)).encode())
        f.flush()
        return subprocess.run(cmd, stdout=f, stderr=subprocess.STDOUT, **kw).returncode


def build_simrt():
    os.makedirs(BUILD_ROOT, exist_ok=True)
    src = os.path.join(VERIF, "simrt", "simrt.c")
    obj = os.path.join(BUILD_ROOT, "simrt.o")
    if not os.path.exists(obj) or os.path.getmtime(obj) < os.path.getmtime(src):
        tmp = obj + ".%d.tmp" % os.getpid()
        rc = subprocess.run(["gcc", "-O2", "-g", "-fno-omit-frame-pointer", "-c", src, "-o", tmp]).returncode
        if rc != 0:
            raise SystemExit("simrt build failed")
        os.replace(tmp, obj)
    return obj


def ensure_build(variant="asan", verbose=False):
    """Build (incrementally) and return the build directory.  variant: asan | plain | baseline."""
    os.makedirs(BUILD_ROOT, exist_ok=True)
    bd = _variant_dir(variant)
    lock = open(os.path.join(BUILD_ROOT, ".lock-" + os.path.basename(bd)), "w")
    fcntl.flock(lock, fcntl.LOCK_EX)
    try:
        t0 = time.time()
        log = os.path.join(BUILD_ROOT, os.path.basename(bd) + ".log")
        if os.path.exists(log) and os.path.getsize(log) > (4 << 20):
            os.unlink(log)
        if variant == "baseline":
            cflags = "-w"
            ldflags = ""
        else:
            simrt = build_simrt()
            san = "-fsanitize=address -fno-omit-frame-pointer " if variant == "asan" else ""
            cflags = "-w -g %s-D%s" % (san, GUARD)
            ldflags = "%s%s -Wl,--wrap=%s" % ("-fsanitize=address " if variant == "asan" else "", simrt,
                                              ",--wrap=".join(WRAPS.split(",")))
        stamp = os.path.join(bd, ".aslsim-config")
        want = "%s|%s|%s" % (repo_dir(), cflags, ldflags)
        have = open(stamp).read() if os.path.exists(stamp) else None
        if have != want or not os.path.exists(os.path.join(bd, "build.ninja")):
            if os.path.isdir(bd):
                shutil.rmtree(bd)
            os.makedirs(bd)
            rc = _run(["cmake", "-G", "Ninja", "-S", repo_dir(), "-B", bd, "-DCMAKE_BUILD_TYPE=RelWithDebInfo",
                       "-DFORCE_COLORED_OUTPUT=OFF", "-DCMAKE_C_FLAGS=" + cflags,
                       "-DCMAKE_EXE_LINKER_FLAGS=" + ldflags], log)
            if rc != 0:
                raise SystemExit("cmake configure failed, see " + log)
            open(stamp, "w").write(want)
        # simrt.o newer than binaries -> force relink by touching nothing: ninja does not know the
        # object, so remove the executables when it changed
        if variant != "baseline":
            so = os.path.join(BUILD_ROOT, "simrt.o")
            for p in PROGS + ("rescomp",):
                e = os.path.join(bd, p)
                if os.path.exists(e) and os.path.getmtime(e) < os.path.getmtime(so):
                    os.unlink(e)
        targets = list(PROGS) + (["test_driver"] if variant == "baseline" else [])
        rc = _run(["cmake", "--build", bd, "--parallel", "16", "--"] + targets, log)
        if rc != 0:
            sys.stdout.write("BUILD-FAILED variant=%s log=%s\n" % (variant, log))
            tail = open(log, "rb").read()[-3000:].decode("latin1")
            sys.stdout.write(tail + "\n")
            raise SystemExit(3)
        if verbose:
            print("build %s ok in %.1fs (%s)" % (variant, time.time() - t0, bd))
        return bd
    finally:
        fcntl.flock(lock, fcntl.LOCK_UN)
        lock.close()


def run_baseline():
    """Configure /repo WITHOUT the guard and run the repository's own test suite."""
    bd = ensure_build("baseline", verbose=True)
    rc = subprocess.run(["cmake", "--build", bd, "--parallel", "16"]).returncode
    if rc != 0:
        return rc
    return subprocess.run(["ctest", "--test-dir", bd, "-j8", "--timeout", "900"]).returncode


if __name__ == "__main__":
    if len(sys.argv) > 1 and sys.argv[1] == "baseline":
        sys.exit(run_baseline())
    for v in sys.argv[1:] or ["asan", "plain"]:
        ensure_build(v, verbose=True)
