"""Common driver: plan -> simulated runs -> oracle results -> gate/minimise/replay -> evidence.

A property module provides
  ID, LEVEL
  plan(tier, seed)            -> list of case descriptors (JSON-able dicts)
  run_case(sim, case)         -> result dict (see below)
  minimise(sim, case, vclass) -> smaller explicit case (optional)
  evidence_extra(agg)         -> dict merged into coverage (optional)
Result dict of run_case:
  violations: [ {class, detail} ]       classes found in this case
  case: explicit, replayable case (JSON-able) - required when violations is non-empty
  digest: identity of the run(s) (event-log hashes + outputs)
  key: content hash of the scenario (for distinct counting)
  nontrivial: bool, stats: {name: int}, probes: {name: int}, faults: {kind: int}
  sim_us: int, runs: int, shape: str (event-log shape id), sample: any (optional)
  observations: [str] (exploratory findings, never alarms)
"""
import hashlib
import importlib
import json
import os
import subprocess
import sys
import time

from . import build, pool
from .rng import mix

VERIF = build.VERIF
KF_PATH = os.path.join(VERIF, "known_findings.json")


def load_known():
    if not os.path.exists(KF_PATH):
        return []
    return json.load(open(KF_PATH))


def canon(obj):
    return json.dumps(obj, sort_keys=True, separators=(",", ":"))


def chash(obj):
    return hashlib.sha1(canon(obj).encode()).hexdigest()[:16]


def ddmin(items, test, max_tests=400):
    """Greedy delta debugging on a list: smallest sublist (order kept) for which test() holds."""
    items = list(items)
    n = 2
    tests = 0
    while len(items) >= 2 and tests < max_tests:
        chunk = max(1, len(items) // n)
        reduced = False
        i = 0
        while i < len(items) and tests < max_tests:
            cand = items[:i] + items[i + chunk:]
            tests += 1
            if cand != items and test(cand):
                items = cand
                n = max(n - 1, 2)
                reduced = True
            else:
                i += chunk
        if not reduced:
            if chunk == 1:
                break
            n = min(n * 2, len(items))
    return items


class Agg:
    def __init__(self):
        self.evaluations = 0
        self.runs = 0
        self.sim_us = 0
        self.keys = set()
        self.nontrivial_keys = set()
        self.shapes = set()
        self.stats = {}
        self.probes = {}
        self.faults = {}
        self.samples = []
        self.observations = {}
        self.violations = []  # (class, detail, case, digest)
        self.errors = []

    def add(self, r):
        if r is None:
            return
        if "machinery_error" in r:
            self.errors.append(r["machinery_error"])
            return
        self.evaluations += 1
        self.runs += r.get("runs", 1)
        self.sim_us += r.get("sim_us", 0)
        for k, nt in r.get("keys") or ():
            self.keys.add(k)
            if nt:
                self.nontrivial_keys.add(k)
        k = r.get("key")
        if k is not None:
            self.keys.add(k)
            if r.get("nontrivial"):
                self.nontrivial_keys.add(k)
        if r.get("shape"):
            self.shapes.add(r["shape"])
        for h in r.get("shapes") or ():
            self.shapes.add(h)
        for name, d in (("stats", self.stats), ("probes", self.probes), ("faults", self.faults)):
            for a, b in (r.get(name) or {}).items():
                d[a] = d.get(a, 0) + b
        if r.get("sample") is not None and len(self.samples) < 6:
            self.samples.append(r["sample"])
        for o in r.get("observations") or []:
            self.observations[o] = self.observations.get(o, 0) + 1
        for v in r.get("violations") or []:
            self.violations.append((v["class"], v.get("detail", ""), v.get("case") or r.get("case"),
                                    v.get("digest") or r.get("digest")))


def _replay_fresh(prop, path):
    """Replay in a fresh interpreter; True iff it reports the violation again."""
    env = dict(os.environ)
    env["VERIF_NO_BUILD"] = "1"
    p = subprocess.run([sys.executable, os.path.join(VERIF, "check"), prop, "--replay", path], env=env,
                       stdout=subprocess.PIPE, stderr=subprocess.STDOUT, timeout=1800)
    return p.returncode == 1 and b"VIOLATION property=" in p.stdout, p.stdout.decode("latin1")


def run_replay(mod, path, quiet=False):
    rp = json.load(open(path))
    sim = pool.get_sim()
    r = mod.run_case(sim, rp["case"])
    if "machinery_error" in (r or {}):
        print(r["machinery_error"])
        return 2
    classes = [v["class"] for v in r.get("violations") or []]
    ok = rp["class"] in classes
    if ok and rp.get("digest") and r.get("digest") and rp["digest"] != r["digest"] and not quiet:
        print("note: replay reproduces the violation class but with a different run digest (%s != %s)"
              % (r["digest"], rp["digest"]))
    if ok:
        if not quiet:
            d = [v.get("detail", "") for v in r["violations"] if v["class"] == rp["class"]][0]
            print("replayed: class=%s %s" % (rp["class"], d))
            print("VIOLATION property=%s replay=%s" % (rp["property"], path))
        return 1
    if not quiet:
        print("replay did not reproduce class %s (got %s)" % (rp["class"], classes))
    return 0


def main(modname, argv):
    mod = importlib.import_module(modname)
    prop = mod.ID
    tier = os.environ.get("VERIF_TIER", "quick")
    replay = None
    i = 0
    while i < len(argv):
        if argv[i] == "--tier":
            tier = argv[i + 1]
            i += 2
        elif argv[i] == "--replay":
            replay = argv[i + 1]
            i += 2
        else:
            raise SystemExit("unknown argument " + argv[i])
    seed = int(os.environ.get("VERIF_SEED", "20261001"))
    t0 = time.time()
    if not os.environ.get("VERIF_NO_BUILD"):
        for v in getattr(mod, "VARIANTS", ("asan", "plain")):
            build.ensure_build(v)
    if replay:
        return run_replay(mod, replay)

    print("aslsim %s tier=%s VERIF_SEED=%d repo=%s workers=%d" % (prop, tier, seed, build.repo_dir(), pool.nworkers()))
    sys.stdout.flush()
    known = [k for k in load_known() if k["property"] == prop]
    agg = Agg()
    exit_code = 0
    reported = set()

    # regression scenarios: replays of known and fixed findings
    sim = pool.get_sim()
    for k in known:
        path = os.path.join(VERIF, k["replay"]) if k.get("replay") else None
        if not path or not os.path.exists(path):
            continue
        rc = run_replay(mod, path, quiet=True)
        if k["status"] == "known":
            if rc == 1:
                print("KNOWN-FINDING: property=%s %s [%s]" % (prop, k["what"], k["signature"]))
                reported.add(k["signature"])
            else:
                print("note: known finding %s no longer reproduces" % k["signature"])
        elif k["status"] == "fixed" and rc == 1:
            print("regression: fixed finding %s reproduces again" % k["signature"])
            print("VIOLATION property=%s replay=%s" % (prop, path))
            exit_code = 1
    sim.close()  # workers start their own servers
    pool._SIM = None

    cases = mod.plan(tier, seed)
    only = os.environ.get("VERIF_ONLY")
    if only:  # development aid: restrict to some generators
        cases = [c for c in cases if c.get("gen") in only.split(",")]
    for r in pool.pmap(modname, "run_case", cases):
        agg.add(r)
    if agg.errors:
        print("MACHINERY-ERROR (%d), first:\n%s" % (len(agg.errors), agg.errors[0]))
        exit_code = 2

    # ---- violations: dedupe by class, gate, minimise, replay file, fresh-process replay
    byclass = {}
    for cls, detail, case, digest in agg.violations:
        byclass.setdefault(cls, []).append((detail, case, digest))
    known_sigs = {k["signature"]: k for k in known if k["status"] == "known"}
    sim = pool.get_sim()
    nviol = 0
    max_report = int(os.environ.get("VERIF_MAX_REPORT", "12"))
    for cls in sorted(byclass):
        detail, case, digest = byclass[cls][0]
        if cls in known_sigs:
            if cls not in reported:
                print("KNOWN-FINDING: property=%s %s [%s] (%d cases)" % (prop, known_sigs[cls]["what"], cls, len(byclass[cls])))
                reported.add(cls)
            continue
        nviol += 1
        if nviol > max_report:
            print("further violation class (not minimised): %s x%d  %s" % (cls, len(byclass[cls]), detail[:200]))
            exit_code = exit_code or 1
            continue
        # gate 1: same case again -> same class and digest
        r2 = mod.run_case(sim, case)
        cl2 = [v["class"] for v in (r2.get("violations") or [])]
        # a CPU-limit kill cuts the event log at a non-deterministic point: compare the class only
        if cls not in cl2 or (digest and r2.get("digest") != digest and "cpu-limit" not in cls):
            print("NON-REPRODUCIBLE class=%s (rerun gave %s, digest %s vs %s)" % (cls, cl2, r2.get("digest"), digest))
            json.dump({"class": cls, "case": case}, open("/tmp/aslsim-nonrepro-%s.json" % chash(cls), "w"))
            exit_code = 2
            continue
        small = case
        if hasattr(mod, "minimise"):
            try:
                small = mod.minimise(sim, case, cls) or case
            except Exception as e:  # minimiser trouble must not hide the violation
                print("minimiser failed: %r" % (e,))
                small = case
        r3 = mod.run_case(sim, small)
        if cls not in [v["class"] for v in (r3.get("violations") or [])]:
            small, r3 = case, r2
        d3 = [v.get("detail", "") for v in r3["violations"] if v["class"] == cls][0]
        name = "%s-%s.json" % (prop, hashlib.sha1(cls.encode()).hexdigest()[:10])
        os.makedirs(os.path.join(VERIF, "replays"), exist_ok=True)
        path = os.path.join(VERIF, "replays", name)
        json.dump({"property": prop, "class": cls, "detail": d3, "seed": seed, "digest": r3.get("digest"),
                   "case": small, "found_in_cases": len(byclass[cls]),
                   "minimised_from": chash(case), "replay": "./check %s --replay replays/%s" % (prop, name)},
                  open(path, "w"), indent=1, sort_keys=True)
        ok, out = _replay_fresh(prop, path)
        if not ok:
            print("NON-REPRODUCIBLE in fresh process: class=%s\n%s" % (cls, out[-2000:]))
            exit_code = 2
            continue
        print("violation class=%s cases=%d detail=%s" % (cls, len(byclass[cls]), d3[:400]))
        print("VIOLATION property=%s replay=%s" % (prop, path))
        exit_code = exit_code or 1
    sim.close()

    for o in sorted(agg.observations):
        print("OBSERVATION: %s (x%d)" % (o, agg.observations[o]))

    wall = time.time() - t0
    cov = {
        "evaluations": agg.runs if getattr(mod, "EVAL_RUNS", False) else agg.evaluations,
        "generator_cases": agg.evaluations,
        "distinct_nontrivial": len(agg.nontrivial_keys),
        "distinct_cases": len(agg.keys),
        "rule": getattr(mod, "RULE", ""),
        "samples": agg.samples[:6] or ["(none)"],
        "runs": agg.runs,
        "runs_per_hour": int(agg.runs / wall * 3600) if wall > 0 else 0,
        "seeds": {"VERIF_SEED": seed, "cases": len(cases)},
        "sim_time_s": round(agg.sim_us / 1e6, 3),
        "faults_fired": dict(sorted(agg.faults.items())),
        "probes": dict(sorted(agg.probes.items())),
        "stats": dict(sorted(agg.stats.items())),
        "distinct_traces": len(agg.shapes),
        "trace_digest": hashlib.sha1(",".join("%x" % h if isinstance(h, int) else str(h) for h in sorted(agg.shapes, key=str)).encode()).hexdigest(),
        "case_digest": hashlib.sha1(",".join(str(k) for k in sorted(agg.keys, key=str)).encode()).hexdigest(),
        "observations": dict(sorted(agg.observations.items())),
        "known_findings_reported": sorted(reported),
        "components": getattr(mod, "COMPONENTS", {}),
        "workers": pool.nworkers(),
    }
    if hasattr(mod, "evidence_extra"):
        cov.update(mod.evidence_extra(agg))
    ev = {"property_id": prop, "tier": "thorough" if tier == "thorough" else "quick", "seed": seed,
          "level": mod.LEVEL, "coverage": cov, "assumptions": list(getattr(mod, "ASSUMPTIONS", [])),
          "wall_s": round(wall, 2), "violations": nviol}
    os.makedirs(os.path.join(VERIF, "evidence"), exist_ok=True)
    tmp = os.path.join(VERIF, "evidence", ".%s.tmp" % prop)
    json.dump(ev, open(tmp, "w"), indent=1, sort_keys=True)
    os.replace(tmp, os.path.join(VERIF, "evidence", prop + ".json"))
    print("%s: %d cases, %d runs, %d distinct non-trivial, %d violation class(es), %.1fs -> exit %d"
          % (prop, agg.evaluations, agg.runs, len(agg.nontrivial_keys), nviol, wall, exit_code))
    return exit_code
