#!/usr/bin/env python3
"""mark_fixed.py <commit> <what> <replay.json>...: move replays to replays/fixed/ and record them as fixed findings."""
import json, os, sys
V = os.path.dirname(os.path.dirname(os.path.abspath(__file__)))
commit, what = sys.argv[1], sys.argv[2]
kf = json.load(open(os.path.join(V, "known_findings.json")))
os.makedirs(os.path.join(V, "replays", "fixed"), exist_ok=True)
for f in sys.argv[3:]:
    rp = json.load(open(f))
    sig = rp["class"]
    base = os.path.basename(f)
    n = 1
    while any(k["property"] == rp["property"] and k["signature"] == sig for k in kf) or os.path.exists(os.path.join(V, "replays", "fixed", base)):
        n += 1
        sig = "%s#%d" % (rp["class"], n)
        base = os.path.basename(f).replace(".json", "-%d.json" % n)
    dst = os.path.join("replays", "fixed", base)
    rp["replay"] = "./check %s --replay %s" % (rp["property"], dst)
    json.dump(rp, open(os.path.join(V, dst), "w"), indent=1, sort_keys=True)
    if os.path.abspath(f) != os.path.abspath(os.path.join(V, dst)):
        os.unlink(f)
    kf.append({"property": rp["property"], "signature": sig, "status": "fixed", "commit": commit,
               "what": what, "replay": dst,
               "line": "fixed: property=%s %s %s (%s)" % (rp["property"], commit, what, rp["class"])})
kf.sort(key=lambda k: (k["property"], k["signature"]))
json.dump(kf, open(os.path.join(V, "known_findings.json"), "w"), indent=1)
print("known_findings.json:", len(kf), "entries")
