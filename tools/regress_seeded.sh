#!/bin/bash
# regress_seeded.sh [ids...]: every seeded change against the current checks, in a scratch worktree (VERIF_REPO), /repo untouched.
# Prints one line per change: <id> CAUGHT|MISSED (exit code, first violation class).
cd /verif
W=/tmp/regress_wt
git -C /repo worktree remove --force $W 2>/dev/null
git -C /repo worktree add -q --detach $W HEAD || exit 9
for d in ${@:-$(ls -d seeded/C*-? | sort)}; do
  id=$(basename $d); P=${id%-*}
  ( cd $W && git checkout -q -- . && git apply /verif/$d/patch.diff ) || { echo "$id PATCH-DOES-NOT-APPLY"; continue; }
  only=$(python3 -c "import json,re;m=re.search(r'VERIF_ONLY=(\S+)',json.load(open('$d/meta.json'))['how_run']);print(m.group(1) if m else '')")
  VERIF_ONLY=$only VERIF_REPO=$W ./check $P --tier quick > /tmp/regress.$id.log 2>&1; rc=$?
  v=$(grep -m1 "^violation class=" /tmp/regress.$id.log | cut -c1-90)
  if [ $rc -eq 1 ]; then echo "$id CAUGHT $v"; else echo "$id MISSED-OR-ERROR rc=$rc $(tail -1 /tmp/regress.$id.log | cut -c1-120)"; fi
  rm -f /verif/replays/$P-*.json
done
git -C /repo worktree remove --force $W
