#!/usr/bin/env python3
"""mark_known.py <what> <replay.json>: record a genuine, unrepaired defect as a known finding (replays/known/)."""
import json, os, sys
V = os.path.dirname(os.path.dirname(os.path.abspath(__file__)))
what, f = sys.argv[1], sys.argv[2]
kf = json.load(open(os.path.join(V, "known_findings.json")))
os.makedirs(os.path.join(V, "replays", "known"), exist_ok=True)
rp = json.load(open(f))
sig = rp["class"]
if any(k["property"] == rp["property"] and k["signature"] == sig and k["status"] == "known" for k in kf):
    raise SystemExit("already listed: " + sig)
dst = os.path.join("replays", "known", os.path.basename(f))
rp["replay"] = "./check %s --replay %s" % (rp["property"], dst)
json.dump(rp, open(os.path.join(V, dst), "w"), indent=1, sort_keys=True)
if os.path.abspath(f) != os.path.abspath(os.path.join(V, dst)):
    os.unlink(f)
kf.append({"property": rp["property"], "signature": sig, "status": "known", "what": what, "replay": dst,
           "line": "KNOWN-FINDING: property=%s %s [%s]" % (rp["property"], what, sig)})
kf.sort(key=lambda k: (k["property"], k["signature"]))
json.dump(kf, open(os.path.join(V, "known_findings.json"), "w"), indent=1)
print("known_findings.json:", len(kf), "entries")
