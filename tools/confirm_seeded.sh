#!/bin/bash
# confirm_seeded.sh <patch.diff> <demo.sh>: in a scratch worktree of /repo HEAD confirm that
#  (a) the project builds and its 201 tests pass with the patch, (b) the demo fails with it and passes without it.
set -u
PATCH=$(readlink -f "$1"); DEMO=$(readlink -f "$2")
W=/tmp/seedconf_$$
git -C /repo worktree add -q $W HEAD || exit 9
cd $W
build() { cmake -G Ninja -S . -B _build -DCMAKE_BUILD_TYPE=Release >/dev/null 2>&1 && cmake --build _build >/dev/null 2>&1; }
build || { echo "BASE BUILD FAILED"; exit 9; }
export AS_MSGPATH=$W/_build
( cd $(dirname $DEMO) && bash $DEMO $W/_build >/tmp/seedconf.base.log 2>&1 ); base=$?
git apply $PATCH || { echo "PATCH DOES NOT APPLY to /repo HEAD"; git -C /repo worktree remove --force $W; exit 8; }
build || { echo "PATCHED BUILD FAILED"; git -C /repo worktree remove --force $W; exit 7; }
tests=$(ctest --test-dir _build -j8 2>&1 | grep "tests passed" )
( cd $(dirname $DEMO) && bash $DEMO $W/_build >/tmp/seedconf.mut.log 2>&1 ); mut=$?
echo "demo without patch: exit $base ; with patch: exit $mut ; $tests"
cd /; git -C /repo worktree remove --force $W
[ $base -eq 0 ] && [ $mut -ne 0 ] && echo CONFIRMED
