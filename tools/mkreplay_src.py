#!/usr/bin/env python3
"""mkreplay_src.py <class> <out.json> <source file> [asl options...]: explicit C03 replay for a source program."""
import json, sys, os
sys.path.insert(0, os.path.dirname(os.path.dirname(os.path.abspath(__file__))))
from aslsim.props import c03
from aslsim.sim import scenario_to_json
cls, out, srcf = sys.argv[1:4]
sc = c03.sc_asl(open(srcf, "rb").read(), sys.argv[4:])
case = {"kind": "explicit", "prog": "asl", "scenario": scenario_to_json(sc), "origin": "hand-written reproduction"}
json.dump({"property": "C03", "class": cls, "detail": "", "seed": 0, "digest": None, "case": case}, open(out, "w"), indent=1, sort_keys=True)
