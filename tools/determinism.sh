#!/bin/bash
# determinism.sh [props...]: run each quick check under two worker counts and two PYTHONHASHSEEDs; the digests of all
# event-log hashes and of all scenario hashes must be identical.
cd /verif
for p in ${@:-C01 C02 C03 C04 C17 C18 C19}; do
  VERIF_NO_BUILD=1 VERIF_WORKERS=16 PYTHONHASHSEED=1 ./check $p >/dev/null 2>&1; a=$(python3 -c "import json;c=json.load(open('evidence/$p.json'))['coverage'];print(c['trace_digest'],c['case_digest'],c['evaluations'],c['distinct_nontrivial'])")
  VERIF_NO_BUILD=1 VERIF_WORKERS=5 PYTHONHASHSEED=77 ./check $p >/dev/null 2>&1; b=$(python3 -c "import json;c=json.load(open('evidence/$p.json'))['coverage'];print(c['trace_digest'],c['case_digest'],c['evaluations'],c['distinct_nontrivial'])")
  if [ "$a" == "$b" ]; then echo "$p deterministic: $a"; else echo "$p DIVERGES: $a | $b"; fi
done
