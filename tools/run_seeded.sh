#!/bin/bash
# run_seeded.sh <seeded dir> <Cxx> [tier]: apply the change to /repo, run the check, undo; prints the verdict lines
D=$(readlink -f $1); P=$2; T=${3:-quick}
cd /verif
git -C /repo apply $D/patch.diff || { echo "patch does not apply"; exit 9; }
./check $P --tier $T > /tmp/run_seeded.$P.log 2>&1; rc=$?
git -C /repo checkout -- .
python3 -m aslsim.build asan plain >/dev/null
grep -E "^(violation|VIOLATION|KNOWN|NON-REPRO|MACHIN|BUILD-FAILED|C[0-9]+:)" /tmp/run_seeded.$P.log | cut -c1-260
echo "exit=$rc"
rm -f /verif/replays/$P-*.json
