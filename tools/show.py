#!/usr/bin/env python3
"""show.py <replay.json>|--src file.asm [opts]: run an explicit scenario and print outcome, console text and sanitizer stack."""
import json, os, sys
sys.path.insert(0, os.path.dirname(os.path.dirname(os.path.abspath(__file__))))
from aslsim.sim import Sim, scenario_from_json
from aslsim import oracle

def main():
    s = Sim()
    if sys.argv[1] == "--src":
        src = open(sys.argv[2], "rb").read()
        sc = dict(argv=["-q", "-i", "/sim/inc"] + sys.argv[3:] + ["a.asm"], cwd="/w", disk={"/w/a.asm": src},
                  env={"LANG": "C", "ASL_VERIF_MAX_LINES": "400000"})
        prog = "asl"
    else:
        rp = json.load(open(sys.argv[1]))
        case = rp["case"]
        prog = case.get("prog", "asl")
        sc = scenario_from_json(case["scenario"])
        print("class:", rp["class"], "| origin:", case.get("origin"))
    print("prog:", prog, "argv:", sc["argv"])
    for k, v in sc.get("disk", {}).items():
        if k.endswith(".asm"):
            print("---", k); print(v.decode("latin1")[:3000])
        else:
            print("---", k, len(v), "bytes:", v[:64].hex())
    r, san = s.run(prog, sc, "asan")
    print("outcome:", r.outcome, "class:", oracle.classify(prog, r, san))
    print("stdout:", r.stdout[:600]); print("stderr:", r.stderr[:600])
    txt = san.decode("latin1")
    print("\n".join(txt.splitlines()[:int(os.environ.get("LINES_SAN", "22"))]))
    s.close()

main()
