/* simrt.c — aslsim runtime.
 *
 * Linked into every executable of the repository under test with
 *   -Wl,--wrap=main,--wrap=fopen,--wrap=unlink,--wrap=remove,--wrap=stat,
 *       --wrap=fstat,--wrap=getcwd,--wrap=time,--wrap=gettimeofday,--wrap=localtime
 * It turns the executable into a fork server: the parent reads scenarios from a
 * control pipe, forks, and the child runs the program's real main() with
 *   - every FILE* the program opens backed by an in-memory file (fopencookie)
 *     inside a MAP_SHARED arena (the "disk"), so unmodified glibc stdio runs on
 *     simulated storage and the parent can read the disk after the child died,
 *   - stdin/stdout/stderr replaced by cookie streams,
 *   - a simulated clock, environment, cwd, stdout kind,
 *   - a fault plan applied inside the cookie callbacks and the wrapped calls,
 *   - a totally ordered event log (hash = run identity).
 * Without ASLSIM_CTL in the environment the program behaves as usual
 * (that is how the build itself runs rescomp, and how ctest runs).
 */
#define _GNU_SOURCE
#include <errno.h>
#include <fcntl.h>
#include <malloc.h>
#include <signal.h>
#include <stdint.h>
#include <stdio.h>
#include <stdlib.h>
#include <string.h>
#include <sys/mman.h>
#include <sys/personality.h>
#include <sys/resource.h>
#include <sys/stat.h>
#include <sys/time.h>
#include <sys/wait.h>
#include <time.h>
#include <unistd.h>

int        __real_main(int, char**);
FILE*      __real_fopen(const char*, const char*);
int        __real_unlink(const char*);
int        __real_remove(const char*);
int        __real_stat(const char*, struct stat*);
int        __real_fstat(int, struct stat*);
char*      __real_getcwd(char*, size_t);
time_t     __real_time(time_t*);
int        __real_gettimeofday(struct timeval*, void*);
struct tm* __real_localtime(const time_t*);

/* ------------------------------------------------------------------ arena */
#define ARENA_SIZE (320u << 20)
#define MAXFILES 4096
#define HASHSZ 16384
#define MAXEV 1500000
#define PATHMAX 240

typedef struct {
    char     path[PATHMAX];
    uint32_t off, len, cap;
    uint8_t  exists, cls, persist, pad;
} SFile;

typedef struct { /* 24 bytes */
    uint32_t seq;
    uint8_t  kind, fault;
    uint16_t file;
    uint32_t off, len;
    int32_t  res;
    uint32_t aux;
} Ev;

typedef struct {
    uint32_t nfiles, nev, bump, evdropped;
    uint32_t npersist, persist_bump;
    uint64_t clock_reads, sim_us, bytes_written, bytes_read;
    int32_t  exit_kind, exit_code; /* kind: 0 exit, 1 signal, 2 simcrash, 3 budget */
    uint32_t faults_fired, short_reads;
    uint64_t loghash;
    uint16_t hash[HASHSZ], hash_persist[HASHSZ];
    SFile    files[MAXFILES];
    Ev       ev[MAXEV];
    uint8_t  data[];
} Arena;

static Arena* A;
static int    sim_on;

/* ----------------------------------------------------------------- scenario */
enum { EV_OPEN = 1, EV_READ, EV_WRITE, EV_SEEK, EV_CLOSE, EV_UNLINK, EV_STAT, EV_TIME, EV_EXIT };
enum { ACT_ERRNO = 1, ACT_CRASH, ACT_TORN, ACT_SHORT };
enum { CLS_OTHER = 0, CLS_CODE, CLS_LIST, CLS_SOURCE, CLS_INC, CLS_MSG, CLS_BIN, CLS_LOG,
       CLS_MAP, CLS_TRACE, CLS_STDOUT, CLS_STDERR, CLS_STDIN, CLS_KEY, CLS_SHARE, CLS_MAC, CLS_NULL };

typedef struct {
    uint8_t  op, cls, action;
    uint32_t nth;
    int32_t  arg;
    uint32_t seen;
    char     sub[64];
} Fault;

static Fault    faults[64];
static int      nfaults;
static char     s_cwd[PATHMAX] = "/w";
static uint64_t clk_start = 946684800ull, clk_step_us = 1000;
static int32_t  tz_off;
static uint32_t stdio_buf, read_chunk, max_events = MAXEV - 8, want_events;
static uint64_t max_disk = 256u << 20;
static uint32_t fill_byte = 0xA5, heap_pad, stdout_kind = 1, cpu_limit = 20, unbuf_out;
static char*    s_env[256];
static int      s_nenv;
static char*    s_argv[8192]; /* argc is checked against this when the scenario is loaded */
static int      s_argc;
static char     s_dirs[16][PATHMAX];
static int      s_ndirs;
static uint8_t* s_stdin;
static uint32_t s_stdin_len;

/* ------------------------------------------------------------------ helpers */
static void hash_ev(const Ev* e) {
    const uint8_t* p = (const uint8_t*)e;
    uint64_t       h = A->loghash ? A->loghash : 1469598103934665603ull;
    for (size_t i = 0; i < sizeof *e; i++) {
        h ^= p[i];
        h *= 1099511628211ull;
    }
    A->loghash = h;
}
static void sim_die(int kind, int code) {
    A->exit_kind = kind;
    A->exit_code = code;
    _exit(100 + kind);
}
static void log_ev(int kind, int file, uint32_t off, uint32_t len, int res, int fault, uint32_t aux) {
    Ev e;
    memset(&e, 0, sizeof e);
    e.seq   = A->nev + A->evdropped;
    e.kind  = kind;
    e.fault = fault;
    e.file  = file;
    e.off   = off;
    e.len   = len;
    e.res   = res;
    e.aux   = aux;
    hash_ev(&e);
    if (fault) A->faults_fired++;
    if (A->nev < MAXEV) A->ev[A->nev++] = e;
    else A->evdropped++;
    if (A->nev + A->evdropped > max_events) sim_die(3, 1);
}
static int ends_with(const char* p, const char* suf) {
    size_t a = strlen(p), b = strlen(suf);
    return a >= b && !strcasecmp(p + a - b, suf);
}
static int classify(const char* p) {
    if (!strcmp(p, "<stdout>")) return CLS_STDOUT;
    if (!strcmp(p, "<stderr>")) return CLS_STDERR;
    if (!strcmp(p, "<stdin>")) return CLS_STDIN;
    if (!strcmp(p, "/dev/null")) return CLS_NULL;
    if (ends_with(p, ".p")) return CLS_CODE;
    if (ends_with(p, ".lst")) return CLS_LIST;
    if (ends_with(p, ".asm") || ends_with(p, ".s") || ends_with(p, ".src")) return CLS_SOURCE;
    if (ends_with(p, ".inc") || ends_with(p, ".h")) return CLS_INC;
    if (ends_with(p, ".msg")) return CLS_MSG;
    if (ends_with(p, ".bin") || ends_with(p, ".hex")) return CLS_BIN;
    if (ends_with(p, ".log")) return CLS_LOG;
    if (ends_with(p, ".map") || ends_with(p, ".noi") || ends_with(p, ".obj")) return CLS_MAP;
    if (ends_with(p, ".trc")) return CLS_TRACE;
    if (ends_with(p, ".key")) return CLS_KEY;
    if (ends_with(p, ".shr")) return CLS_SHARE;
    if (ends_with(p, ".mac") || ends_with(p, ".i")) return CLS_MAC;
    return CLS_OTHER;
}
/* lexical normalisation: absolute, no "//", "/./", "x/../" */
static void normpath(const char* in, char* out, size_t n) {
    char        tmp[2 * PATHMAX + 8];
    const char* segs[128];
    size_t      lens[128];
    int         ns = 0;
    if (in[0] == '/') snprintf(tmp, sizeof tmp, "%s", in);
    else snprintf(tmp, sizeof tmp, "%s/%s", s_cwd, in);
    for (char* p = tmp; *p;) {
        while (*p == '/') p++;
        if (!*p) break;
        char* q = p;
        while (*q && *q != '/') q++;
        size_t l = (size_t)(q - p);
        if (l == 1 && p[0] == '.') {
        } else if (l == 2 && p[0] == '.' && p[1] == '.') {
            if (ns > 0) ns--;
        } else if (ns < 128) {
            segs[ns] = p;
            lens[ns] = l;
            ns++;
        }
        p = q;
    }
    size_t o = 0;
    if (ns == 0 && n > 1) out[o++] = '/';
    for (int i = 0; i < ns; i++) {
        if (o + lens[i] + 2 >= n) break;
        out[o++] = '/';
        memcpy(out + o, segs[i], lens[i]);
        o += lens[i];
    }
    out[o] = 0;
}
static uint32_t strhash(const char* s) {
    uint32_t h = 2166136261u;
    while (*s) {
        h ^= (uint8_t)*s++;
        h *= 16777619u;
    }
    return h;
}
static int find_file(const char* np) {
    uint32_t h = strhash(np) & (HASHSZ - 1);
    while (A->hash[h]) {
        int i = A->hash[h] - 1;
        if (!strcmp(A->files[i].path, np)) return i;
        h = (h + 1) & (HASHSZ - 1);
    }
    return -1;
}
static int add_file(const char* np) {
    if (A->nfiles >= MAXFILES - 1) sim_die(3, 2);
    SFile* f = &A->files[A->nfiles];
    memset(f, 0, sizeof *f);
    snprintf(f->path, sizeof f->path, "%s", np);
    f->cls     = classify(np);
    uint32_t h = strhash(f->path) & (HASHSZ - 1);
    while (A->hash[h]) h = (h + 1) & (HASHSZ - 1);
    A->hash[h] = (uint16_t)(A->nfiles + 1);
    return (int)A->nfiles++;
}
static int is_dir(const char* np) {
    /* a directory exists iff some existing file lives below it (or it is / or cwd) */
    size_t l = strlen(np);
    if (l <= 1 || !strcmp(np, s_cwd)) return 1;
    for (int i = 0; i < s_ndirs; i++) {
        size_t dl = strlen(s_dirs[i]);
        if (!strncmp(s_dirs[i], np, l) && (dl == l || s_dirs[i][l] == '/')) return 1;
    }
    for (uint32_t i = 0; i < A->nfiles; i++)
        if (A->files[i].exists && !strncmp(A->files[i].path, np, l) && A->files[i].path[l] == '/') return 1;
    return 0;
}
static int parent_dir_exists(const char* np) {
    char        d[PATHMAX];
    const char* s = strrchr(np, '/');
    if (!s || s == np) return 1;
    size_t l = (size_t)(s - np);
    if (l >= sizeof d) return 0;
    memcpy(d, np, l);
    d[l] = 0;
    return is_dir(d);
}
static uint64_t disk_used(void) {
    uint64_t t = 0;
    for (uint32_t i = A->npersist; i < A->nfiles; i++)
        if (A->files[i].exists) t += A->files[i].len;
    return t;
}
static int ensure_cap(SFile* f, uint32_t need) {
    if (need <= f->cap) return 0;
    uint32_t ncap = need < 1024 ? 1024 : need + need / 2;
    ncap          = (ncap + 63u) & ~63u;
    if (f->cap && f->off + f->cap == A->bump) { /* last region of the arena: grow in place, no copy, no waste */
        if ((uint64_t)f->off + ncap > (uint64_t)ARENA_SIZE - sizeof(Arena)) return -1;
        A->bump = f->off + ncap;
        f->cap  = ncap;
        return 0;
    }
    if ((uint64_t)A->bump + ncap > (uint64_t)ARENA_SIZE - sizeof(Arena)) return -1;
    uint32_t noff = A->bump;
    A->bump += ncap;
    if (f->len) memcpy(A->data + noff, A->data + f->off, f->len);
    f->off = noff;
    f->cap = ncap;
    return 0;
}
static Fault* match_fault(int op, int cls, const char* path) {
    for (int i = 0; i < nfaults; i++) {
        Fault* f = &faults[i];
        if (f->op != op) continue;
        if (f->cls != 255 && f->cls != cls) continue;
        if (f->sub[0] && !strstr(path, f->sub)) continue;
        if (++f->seen == f->nth) return f;
    }
    return NULL;
}

/* ------------------------------------------------------------ cookie streams */
typedef struct {
    int      fi;
    uint64_t pos; /* may lie far behind the end of the file, as on a real file system */
    int      append, rd, wr;
} Ck;

static ssize_t ck_read(void* c, char* buf, size_t n) {
    Ck*    k = c;
    SFile* f = &A->files[k->fi];
    if (!k->rd) {
        errno = EBADF;
        return -1;
    }
    Fault* ft = match_fault(EV_READ, f->cls, f->path);
    if (ft && ft->action == ACT_ERRNO) {
        log_ev(EV_READ, k->fi, k->pos, (uint32_t)n, -ft->arg, 1, 0);
        errno = ft->arg;
        return -1;
    }
    uint32_t r = k->pos < f->len ? (uint32_t)(f->len - k->pos) : 0;
    if (r > n) r = (uint32_t)n;
    int shortened = 0;
    if (read_chunk && r > read_chunk) {
        r         = read_chunk;
        shortened = 1;
    }
    if (ft && ft->action == ACT_SHORT && r > (uint32_t)ft->arg && ft->arg > 0) {
        r         = (uint32_t)ft->arg;
        shortened = 1;
    }
    if (shortened) A->short_reads++;
    if (r) memcpy(buf, A->data + f->off + k->pos, r);
    log_ev(EV_READ, k->fi, k->pos, r, (int)r, ft != NULL, 0);
    k->pos += r;
    A->bytes_read += r;
    return r;
}
static ssize_t ck_write(void* c, const char* buf, size_t n) {
    Ck*    k = c;
    SFile* f = &A->files[k->fi];
    if (!k->wr) {
        errno = EBADF;
        return 0;
    }
    if (k->append) k->pos = f->len;
    Fault* ft    = match_fault(EV_WRITE, f->cls, f->path);
    size_t apply = n;
    if (ft) {
        if (ft->action == ACT_ERRNO) {
            log_ev(EV_WRITE, k->fi, k->pos, (uint32_t)n, -ft->arg, 1, 0);
            errno = ft->arg;
            return 0;
        }
        if (ft->action == ACT_CRASH) {
            log_ev(EV_WRITE, k->fi, k->pos, (uint32_t)n, 0, 1, 0);
            sim_die(2, 0);
        }
        if (ft->action == ACT_TORN) apply = (size_t)ft->arg < n ? (size_t)ft->arg : n;
    }
    if (f->cls == CLS_NULL) {
        log_ev(EV_WRITE, k->fi, 0, (uint32_t)n, (int)n, ft != NULL, 0);
        return (ssize_t)n;
    }
    if (f->cls != CLS_STDOUT && f->cls != CLS_STDERR && k->pos + apply > f->len
        && disk_used() + (k->pos + apply - f->len) > max_disk) {
        log_ev(EV_WRITE, k->fi, k->pos, (uint32_t)n, -ENOSPC, 2, 0);
        errno = ENOSPC;
        return 0;
    }
    if (k->pos + apply > 0x7fffffffu) { /* beyond what the simulated disk can ever hold */
        log_ev(EV_WRITE, k->fi, (uint32_t)k->pos, (uint32_t)n, -EFBIG, 2, 0);
        errno = EFBIG;
        return 0;
    }
    if (ensure_cap(f, (uint32_t)k->pos + (uint32_t)apply) < 0) sim_die(3, 3);
    if (k->pos > f->len) memset(A->data + f->off + f->len, 0, k->pos - f->len);
    memcpy(A->data + f->off + k->pos, buf, apply);
    log_ev(EV_WRITE, k->fi, k->pos, (uint32_t)apply, (int)apply, ft != NULL, 0);
    k->pos += (uint32_t)apply;
    if (k->pos > f->len) f->len = k->pos;
    A->bytes_written += apply;
    if (ft && ft->action == ACT_TORN) sim_die(2, 0);
    return (ssize_t)n;
}
static int ck_seek(void* c, off64_t* off, int wh) {
    Ck*     k  = c;
    SFile*  f  = &A->files[k->fi];
    Fault*  ft = match_fault(EV_SEEK, f->cls, f->path);
    off64_t b  = wh == SEEK_SET ? 0 : wh == SEEK_CUR ? (off64_t)k->pos : (off64_t)f->len;
    if (ft && ft->action == ACT_ERRNO) {
        log_ev(EV_SEEK, k->fi, k->pos, 0, -ft->arg, 1, 0);
        errno = ft->arg;
        return -1;
    }
    if (ft && ft->action == ACT_CRASH) {
        log_ev(EV_SEEK, k->fi, k->pos, 0, 0, 1, 0);
        sim_die(2, 0);
    }
    b += *off;
    if (b < 0 || b >= ((off64_t)1 << 44)) { /* ext4's 16 TiB file size limit */
        errno = EINVAL;
        log_ev(EV_SEEK, k->fi, k->pos, 0, -EINVAL, 0, 0);
        return -1;
    }
    k->pos = (uint64_t)b;
    *off   = b;
    log_ev(EV_SEEK, k->fi, k->pos, 0, 0, 0, (uint32_t)wh);
    return 0;
}
static int ck_close(void* c) {
    Ck*    k  = c;
    SFile* f  = &A->files[k->fi];
    Fault* ft = match_fault(EV_CLOSE, f->cls, f->path);
    int    rc = 0;
    if (ft && ft->action == ACT_ERRNO) {
        log_ev(EV_CLOSE, k->fi, 0, f->len, -ft->arg, 1, 0);
        errno = ft->arg;
        rc    = -1;
    } else {
        log_ev(EV_CLOSE, k->fi, 0, f->len, 0, 0, 0);
    }
    free(k);
    return rc;
}
static cookie_io_functions_t CKIO = {ck_read, ck_write, ck_seek, ck_close};

static FILE* open_cookie(int fi, const char* mode, uint32_t bufsz) {
    Ck* k = calloc(1, sizeof *k);
    k->fi = fi;
    if (mode[0] == 'a') k->append = 1;
    int plus = strchr(mode, '+') != NULL;
    k->rd    = mode[0] == 'r' || plus;
    k->wr    = mode[0] != 'r' || plus;
    FILE* fp = fopencookie(k, mode, CKIO);
    if (!fp) {
        free(k);
        return NULL;
    }
    if (bufsz == 1) setvbuf(fp, NULL, _IONBF, 0);
    else if (bufsz > 1) setvbuf(fp, NULL, _IOFBF, bufsz);
    return fp;
}

/* --------------------------------------------------------- wrapped libc calls */
FILE* __wrap_fopen(const char* path, const char* mode) {
    if (!sim_on) return __real_fopen(path, mode);
    char np[PATHMAX];
    normpath(path, np, sizeof np);
    int    fi = find_file(np), cls = classify(np);
    if (fi < 0 && A->nfiles < MAXFILES - 8) fi = add_file(np); /* give failed opens a name in the log too */
    Fault* ft = match_fault(EV_OPEN, cls, np);
    if (ft && ft->action == ACT_ERRNO) {
        log_ev(EV_OPEN, fi < 0 ? 0xffff : fi, 0, 0, -ft->arg, 1, (uint32_t)mode[0]);
        errno = ft->arg;
        return NULL;
    }
    if (ft && ft->action == ACT_CRASH) {
        log_ev(EV_OPEN, fi < 0 ? 0xffff : fi, 0, 0, 0, 1, (uint32_t)mode[0]);
        sim_die(2, 0);
    }
    int err = 0;
    if (cls == CLS_NULL) {
        if (fi < 0) fi = add_file(np);
        A->files[fi].exists = 1;
        A->files[fi].len    = 0;
    }
    int have = fi >= 0 && A->files[fi].exists;
    if (mode[0] == 'r' && !strchr(mode, '+')) {
        if (!have) err = ENOENT;
    } else {
        if (fi >= 0 && A->files[fi].persist) err = EROFS;
        else if (!strncmp(np, "/sim/", 5)) err = EROFS;
        else if (mode[0] == 'r' && !have) err = ENOENT;
        else if (cls == CLS_NULL) err = 0;
        else if (!have && strlen(np) > 1 && is_dir(np)) err = EISDIR;
        else if (!parent_dir_exists(np)) err = ENOENT;
    }
    if (err) {
        log_ev(EV_OPEN, fi < 0 ? 0xffff : fi, 0, 0, -err, 0, (uint32_t)mode[0]);
        errno = err;
        return NULL;
    }
    if (mode[0] != 'r') {
        if (fi < 0) fi = add_file(np);
        if (!A->files[fi].exists) A->files[fi].len = 0;
        A->files[fi].exists = 1;
        if (mode[0] == 'w') A->files[fi].len = 0;
    }
    log_ev(EV_OPEN, fi, 0, A->files[fi].len, 0, 0, (uint32_t)mode[0]);
    uint32_t bs = stdio_buf;
    FILE*    fp = open_cookie(fi, mode, bs);
    return fp;
}
int __wrap_unlink(const char* path) {
    if (!sim_on) return __real_unlink(path);
    char np[PATHMAX];
    normpath(path, np, sizeof np);
    int    fi = find_file(np);
    Fault* ft = match_fault(EV_UNLINK, classify(np), np);
    if (ft && ft->action == ACT_ERRNO) {
        log_ev(EV_UNLINK, fi < 0 ? 0xffff : fi, 0, 0, -ft->arg, 1, 0);
        errno = ft->arg;
        return -1;
    }
    if (fi < 0 || !A->files[fi].exists) {
        log_ev(EV_UNLINK, fi < 0 ? 0xffff : fi, 0, 0, -ENOENT, 0, 0);
        errno = ENOENT;
        return -1;
    }
    if (A->files[fi].persist) {
        log_ev(EV_UNLINK, fi, 0, 0, -EROFS, 0, 0);
        errno = EROFS;
        return -1;
    }
    A->files[fi].exists = 0;
    log_ev(EV_UNLINK, fi, 0, 0, 0, 0, 0);
    return 0;
}
int __wrap_remove(const char* path) {
    return sim_on ? __wrap_unlink(path) : __real_remove(path);
}
int __wrap_stat(const char* path, struct stat* st) {
    if (!sim_on) return __real_stat(path, st);
    char np[PATHMAX];
    normpath(path, np, sizeof np);
    int fi = find_file(np);
    memset(st, 0, sizeof *st);
    if (fi >= 0 && A->files[fi].exists) {
        st->st_mode  = S_IFREG | 0644;
        st->st_size  = A->files[fi].len;
        st->st_mtime = (time_t)clk_start;
        log_ev(EV_STAT, fi, 0, 0, 0, 0, 0);
        return 0;
    }
    if (is_dir(np)) {
        st->st_mode = S_IFDIR | 0755;
        log_ev(EV_STAT, 0xffff, 0, 0, 1, 0, 0);
        return 0;
    }
    log_ev(EV_STAT, 0xffff, 0, 0, -ENOENT, 0, 0);
    errno = ENOENT;
    return -1;
}
int __wrap_fstat(int fd, struct stat* st) {
    if (!sim_on) return __real_fstat(fd, st);
    memset(st, 0, sizeof *st);
    if (fd == 1) st->st_mode = stdout_kind == 0 ? (S_IFCHR | 0620) : stdout_kind == 2 ? (S_IFIFO | 0600) : (S_IFREG | 0644);
    else st->st_mode = S_IFREG | 0644;
    st->st_blksize = 4096;
    return 0;
}
char* __wrap_getcwd(char* buf, size_t n) {
    if (!sim_on) return __real_getcwd(buf, n);
    if (strlen(s_cwd) + 1 > n) {
        errno = ERANGE;
        return NULL;
    }
    strcpy(buf, s_cwd);
    return buf;
}
static uint64_t now_us(void) {
    uint64_t t = clk_start * 1000000ull + A->clock_reads * clk_step_us;
    A->clock_reads++;
    A->sim_us = A->clock_reads * clk_step_us;
    log_ev(EV_TIME, 0xffff, 0, 0, 0, 0, (uint32_t)A->clock_reads);
    return t;
}
time_t __wrap_time(time_t* t) {
    if (!sim_on) return __real_time(t);
    time_t v = (time_t)(now_us() / 1000000ull);
    if (t) *t = v;
    return v;
}
int __wrap_gettimeofday(struct timeval* tv, void* tz) {
    if (!sim_on) return __real_gettimeofday(tv, tz);
    uint64_t u  = now_us();
    tv->tv_sec  = (time_t)(u / 1000000ull);
    tv->tv_usec = (suseconds_t)(u % 1000000ull);
    return 0;
}
struct tm* __wrap_localtime(const time_t* t) {
    static struct tm tmv;
    if (!sim_on) return __real_localtime(t);
    time_t v = *t + tz_off;
    return gmtime_r(&v, &tmv);
}

/* ------------------------------------------------------------------ protocol */
static int rd_all(int fd, void* b, size_t n) {
    char* p = b;
    while (n) {
        ssize_t r = read(fd, p, n);
        if (r < 0 && errno == EINTR) continue;
        if (r <= 0) return -1;
        p += r;
        n -= (size_t)r;
    }
    return 0;
}
static int wr_all(int fd, const void* b, size_t n) {
    const char* p = b;
    while (n) {
        ssize_t r = write(fd, p, n);
        if (r < 0 && errno == EINTR) continue;
        if (r <= 0) return -1;
        p += r;
        n -= (size_t)r;
    }
    return 0;
}
static uint32_t g32(uint8_t** p) {
    uint32_t v;
    memcpy(&v, *p, 4);
    *p += 4;
    return v;
}
static uint64_t g64(uint8_t** p) {
    uint64_t v;
    memcpy(&v, *p, 8);
    *p += 8;
    return v;
}
static char* gstr(uint8_t** p) {
    uint32_t n = g32(p);
    char*    s = malloc(n + 1);
    memcpy(s, *p, n);
    s[n] = 0;
    *p += n;
    return s;
}
static void load_files(uint8_t** pp, int persist) {
    uint32_t nf = g32(pp);
    for (uint32_t i = 0; i < nf; i++) {
        char*    path = gstr(pp);
        uint32_t len  = g32(pp);
        char     np[PATHMAX];
        normpath(path, np, sizeof np);
        int fi = find_file(np);
        if (fi < 0) fi = add_file(np);
        SFile* f = &A->files[fi];
        f->cap   = 0;
        f->len   = 0;
        if (ensure_cap(f, len + 1) < 0) {
            fprintf(stderr, "simrt: arena full while loading %s\n", np);
            _exit(99);
        }
        memcpy(A->data + f->off, *pp, len);
        *pp += len;
        f->len     = len;
        f->exists  = 1;
        f->persist = (uint8_t)persist;
        free(path);
    }
}
static void reset_arena(void) {
    A->nfiles = A->npersist;
    A->bump   = A->persist_bump;
    memcpy(A->hash, A->hash_persist, sizeof A->hash);
    A->nev = A->evdropped = 0;
    A->clock_reads = A->sim_us = A->bytes_written = A->bytes_read = 0;
    A->faults_fired = A->short_reads = 0;
    A->loghash                       = 0;
    A->exit_kind                     = -1;
    A->exit_code                     = 0;
}
static void parse_scenario(uint8_t* p) {
    reset_arena();
    nfaults = 0;
    char* cwd = gstr(&p);
    snprintf(s_cwd, sizeof s_cwd, "%s", cwd);
    free(cwd);
    clk_start   = g64(&p);
    clk_step_us = g64(&p);
    tz_off      = (int32_t)g32(&p);
    stdio_buf   = g32(&p);
    read_chunk  = g32(&p);
    max_events  = g32(&p);
    if (max_events > MAXEV - 8) max_events = MAXEV - 8;
    max_disk    = g64(&p);
    fill_byte   = g32(&p);
    heap_pad    = g32(&p);
    stdout_kind = g32(&p);
    cpu_limit   = g32(&p);
    want_events = g32(&p);
    unbuf_out   = g32(&p);
    s_argc      = (int)g32(&p);
    if (s_argc < 0 || s_argc >= (int)(sizeof(s_argv) / sizeof(*s_argv))) {
        fprintf(stderr, "simrt: scenario has %d arguments, more than the runtime takes\n", s_argc);
        _exit(99);
    }
    for (int i = 0; i < s_argc; i++) s_argv[i] = gstr(&p);
    s_argv[s_argc] = NULL;
    s_nenv         = (int)g32(&p);
    for (int i = 0; i < s_nenv; i++) s_env[i] = gstr(&p);
    s_ndirs = (int)g32(&p);
    for (int i = 0; i < s_ndirs; i++) {
        char* d = gstr(&p);
        if (i < 16) normpath(d, s_dirs[i], PATHMAX);
        free(d);
    }
    if (s_ndirs > 16) s_ndirs = 16;
    s_stdin_len = g32(&p);
    s_stdin     = p;
    p += s_stdin_len;
    { /* stdin becomes a file */
        int    fi = add_file("<stdin>");
        SFile* f  = &A->files[fi];
        ensure_cap(f, s_stdin_len + 1);
        memcpy(A->data + f->off, s_stdin, s_stdin_len);
        f->len    = s_stdin_len;
        f->exists = 1;
    }
    load_files(&p, 0);
    nfaults = (int)g32(&p);
    if (nfaults > 64) nfaults = 64;
    for (int i = 0; i < nfaults; i++) {
        faults[i].op     = (uint8_t)g32(&p);
        faults[i].cls    = (uint8_t)g32(&p);
        faults[i].action = (uint8_t)g32(&p);
        faults[i].nth    = g32(&p);
        faults[i].arg    = (int32_t)g32(&p);
        faults[i].seen   = 0;
        char* sub        = gstr(&p);
        snprintf(faults[i].sub, sizeof faults[i].sub, "%s", sub);
        free(sub);
    }
}
static void __attribute__((noinline)) scribble_stack(int fill) {
    volatile char buf[768 * 1024];
    memset((void*)buf, fill, sizeof buf);
    __asm__ volatile("" ::: "memory");
}
static void* volatile heap_sink;
static void child_run(void) {
    sim_on = 1;
    scribble_stack((int)fill_byte);
    clearenv();
    for (int i = 0; i < s_nenv; i++) putenv(s_env[i]);
    struct rlimit rl = {cpu_limit, cpu_limit + 2};
    setrlimit(RLIMIT_CPU, &rl);
    mallopt(M_PERTURB, (int)(fill_byte & 0xff));
    for (uint32_t i = 0; i < heap_pad; i++) heap_sink = malloc(24 + (i * 40u) % 1000u);
    int fi_in = find_file("<stdin>");
    int fo = add_file("<stdout>"), fe = add_file("<stderr>");
    A->files[fo].exists = A->files[fe].exists = 1;
    stdin                                     = open_cookie(fi_in, "r", 0);
    stdout                                    = open_cookie(fo, "w", unbuf_out ? 1 : 0);
    stderr                                    = open_cookie(fe, "w", 1);
    int rc                                    = __real_main(s_argc, s_argv);
    exit(rc);
}
static void at_exit_flush(void) {
    if (sim_on) fflush(NULL);
}

static uint8_t* outbuf;
static size_t   outcap;
static void     reply(int fout, int kind, int code) {
    uint32_t cnt = 0;
    size_t   total = 64;
    for (uint32_t i = A->npersist; i < A->nfiles; i++) {
        SFile* f = &A->files[i];
        cnt++;
        total += 4 + strlen(f->path) + 12 + (f->exists ? f->len : 0);
    }
    uint32_t nev = want_events ? A->nev : 0;
    total += (size_t)nev * sizeof(Ev);
    if (total + 4 > outcap) {
        outcap = total + 4 + (1u << 20);
        outbuf = realloc(outbuf, outcap);
    }
    uint8_t* q   = outbuf;
    uint32_t t32 = (uint32_t)total;
    memcpy(q, &t32, 4);
    q += 4;
    uint32_t hdr[16] = {(uint32_t)kind,
                        (uint32_t)code,
                        (uint32_t)(A->loghash),
                        (uint32_t)(A->loghash >> 32),
                        A->nev + A->evdropped,
                        (uint32_t)(A->sim_us & 0xffffffffu),
                        (uint32_t)(A->sim_us >> 32),
                        cnt,
                        nev,
                        A->faults_fired,
                        A->short_reads,
                        (uint32_t)A->clock_reads,
                        (uint32_t)A->bytes_written,
                        (uint32_t)A->bytes_read,
                        0,
                        0};
    memcpy(q, hdr, sizeof hdr);
    q += sizeof hdr;
    for (uint32_t i = A->npersist; i < A->nfiles; i++) {
        SFile*   f  = &A->files[i];
        uint32_t pl = (uint32_t)strlen(f->path);
        memcpy(q, &pl, 4);
        q += 4;
        memcpy(q, f->path, pl);
        q += pl;
        uint32_t ex = f->exists, l = f->exists ? f->len : 0;
        memcpy(q, &ex, 4);
        q += 4;
        memcpy(q, &l, 4);
        q += 4;
        memcpy(q, &i, 4);
        q += 4;
        if (l) memcpy(q, A->data + f->off, l);
        q += l;
    }
    memcpy(q, A->ev, (size_t)nev * sizeof(Ev));
    q += (size_t)nev * sizeof(Ev);
    if (wr_all(fout, outbuf, total + 4)) _exit(0);
}

__attribute__((used)) const char* __asan_default_options(void);
__attribute__((used)) const char* __asan_default_options(void) {
    return "exitcode=77:detect_leaks=0:handle_sigfpe=1:allocator_may_return_null=1:"
           "abort_on_error=0:detect_stack_use_after_return=0:malloc_fill_byte=165:max_malloc_fill_size=4096:max_allocation_size_mb=512";
}

int __wrap_main(int argc, char** argv) {
    const char* ctl = getenv("ASLSIM_CTL");
    if (!ctl) {
        const char* one = getenv("ASLSIM_SCENARIO");
        if (!one) return __real_main(argc, argv);
    }
    {
        int pers = personality(0xffffffff);
        if (pers != -1 && !(pers & ADDR_NO_RANDOMIZE)) {
            personality(pers | ADDR_NO_RANDOMIZE);
            execv("/proc/self/exe", argv);
        }
    }
    A = mmap(NULL, ARENA_SIZE, PROT_READ | PROT_WRITE, MAP_SHARED | MAP_ANONYMOUS | MAP_NORESERVE, -1, 0);
    if (A == MAP_FAILED) {
        perror("simrt: mmap");
        return 99;
    }
    atexit(at_exit_flush);
    int fin = 0, fout = 1;
    if (ctl) sscanf(ctl, "%d,%d", &fin, &fout);
    else {
        /* one-shot mode for gdb/valgrind: scenario stream (preload + run messages) in a file,
           reply discarded; exit status of the child is mirrored */
        fin  = open(getenv("ASLSIM_SCENARIO"), O_RDONLY);
        fout = open("/dev/null", O_WRONLY);
        if (fin < 0) {
            perror("simrt: scenario");
            return 99;
        }
    }
    signal(SIGPIPE, SIG_IGN);
    int last_kind = 0, last_code = 0;
    for (;;) {
        uint32_t n;
        if (rd_all(fin, &n, 4)) break;
        uint8_t* buf = malloc(n ? n : 1);
        if (rd_all(fin, buf, n)) break;
        uint8_t* p   = buf;
        uint32_t typ = g32(&p);
        if (typ == 1) { /* preload persistent files */
            reset_arena();
            load_files(&p, 1);
            A->npersist     = A->nfiles;
            A->persist_bump = A->bump;
            memcpy(A->hash_persist, A->hash, sizeof A->hash);
            uint32_t ok[2] = {4, A->npersist};
            if (wr_all(fout, ok, 8)) break;
            free(buf);
            continue;
        }
        parse_scenario(p);
        fflush(NULL);
        pid_t pid = fork();
        if (pid == 0) {
            if (!ctl && getenv("ASLSIM_NOFORK_DEBUG")) { }
            child_run();
            _exit(0);
        }
        int st;
        while (waitpid(pid, &st, 0) < 0 && errno == EINTR) { }
        int kind, code;
        if (A->exit_kind >= 2) {
            kind = A->exit_kind;
            code = A->exit_code;
        } else if (WIFSIGNALED(st)) {
            kind = 1;
            code = WTERMSIG(st);
        } else {
            kind = 0;
            code = WEXITSTATUS(st);
        }
        last_kind = kind;
        last_code = code;
        reply(fout, kind, code);
        for (int i = 0; i < s_argc; i++) free(s_argv[i]);
        for (int i = 0; i < s_nenv; i++) free(s_env[i]);
        free(buf);
    }
    if (!ctl) {
        fprintf(stderr, "simrt: last scenario ended kind=%d code=%d\n", last_kind, last_code);
        return last_kind == 0 ? last_code : 100 + last_kind;
    }
    return 0;
}
