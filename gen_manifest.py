#!/usr/bin/env python3
"""Regenerates MANIFEST.json from the table below (kept as code so it stays consistent)."""
import json
import subprocess

CLAIMED = {
    "C19": dict(level="exploration",
                text="History check against the recorded emission trace of each simulated run (hook: pass, file, line, segment, load address, "
                     "phase, bytes as written and as held in the code buffer): the trace is first validated against the parsed code file, then "
                     "the listing must be an order-preserving sub-sequence of it (address in list radix, code words), every MAP line:address "
                     "entry must match a final-pass record, and listing symbol table, MAP symbols and share file must agree; run under forced "
                     "extra passes and with a predecessor file in the same process, where stale renderer bookkeeping shows.",
                note="Trusted: hook H4 (validated per run by rule 1), codefile.py, parsers of listing/MAP/share written from doc/file-formats.md and observed layout.",
                technique="deterministic simulation: recorded emission history as witness under pass-schedule and file-history perturbation",
                design="4. C19"),
    "C01": dict(level="exploration",
                text="Seeded search over pass schedules and layouts: the simulator owns the pass loop through a hook (forced extra passes after "
                     "convergence, pass cap with per-pass symbol-state trace). Generated layouts for 6502/6809/68HC11/68000/8086 with auto-sized "
                     "references around the size thresholds are decoded by an independent per-target decoder (every reference must encode its "
                     "label's final address); a forced further pass must change neither code file nor MAP symbols (also for the whole golden "
                     "corpus); a pass cap hit counts as non-termination only when the per-pass symbol state provably repeats.",
                note="Trusted: hook H1 (pass schedule/trace), decoder tables transcribed from the manufacturers' manuals, codefile.py reader.",
                technique="deterministic simulation: pass-schedule perturbation (forced passes, livelock cap with state-cycle detection) + decoder oracle",
                design="4. C01"),
    "C04": dict(level="exploration",
                text="Seeded search over generated data/reservation/ORG/SEGMENT/CPU/END programs on byte-, word- and 4-byte-granular "
                     "targets with run lengths at the 512-byte and 64 KiB boundaries, each assembled under several settings of the "
                     "simulator-owned tuning knobs (private code-buffer size via hook, stdio buffer size, source read chunking); the code "
                     "file is parsed by an independent reader and compared as an ordered byte stream with an independent memory model; "
                     "same program under different knobs must give the same file; the golden corpus is re-rendered under the knobs.",
                note="Trusted: codefile.py reader (from doc/file-formats.md), the statement model (documented meaning of DB/DW/DS etc.), .ori files.",
                technique="deterministic simulation: tuning-knob/buffer-boundary perturbation with reference-model oracle",
                design="4. C04"),
    "C18": dict(level="exploration",
                text="Seeded search over file histories of one long-lived simulated process: 2-4 sources per invocation (golden sources, "
                     "golden sources cut at a random line so that constructs stay open, generated state-setters) checked file by file "
                     "(code file, per-file diagnostics log, exit status) for refinement against the state-free reference model 'the same "
                     "file alone in a fresh process'; every golden source after itself and every setter statement before every probe are "
                     "enumerated systematically.",
                note="Trusted: simrt; options are shared by a history, so only golden programs with equal asflags are combined.",
                technique="deterministic simulation: history refinement against a fresh-process reference model",
                design="4. C18"),
    "C17": dict(level="exploration",
                text="Seeded search over the simulator's environment seams: for every golden program and generated programs one reference "
                     "run and perturbed runs (report-option subsets from the property's list, option placement argv/ASCMD/key file, LANG, "
                     "cwd and path forms, output path, stdout kind, clock incl. roll-over, heap/stack fill and address padding, stdio buffer "
                     "sizes, read chunking, code-buffer size); byte equality of code files, full-output equality under memory perturbation, "
                     "equality modulo stamp under clock perturbation. Exact because the clock is simulated.",
                note="Trusted: simrt clock/env/cwd/fstat seams, glibc M_PERTURB as heap fill; stamp masked by date/time patterns on both sides.",
                technique="deterministic simulation: environment/clock/memory perturbation with differential oracle against a reference run",
                design="4. C17"),
    "C02": dict(level="exploration",
                text="Seeded search over workloads (planted error/warning/fatal counts incl. the 16-bit boundaries, options, stale outputs, "
                     "1-3 sources per process) plus complete enumeration of one I/O fault at every open/write/seek/close of every output "
                     "file of fixed scenarios; the property is checked as invariants over the recorded event history (source opens = "
                     "file/pass boundaries, diagnostic writes, creates/unlinks), final disk and exit status of each simulated process.",
                note="Trusted: simrt event log, recognition of diagnostic lines in native/GNU format under LANG=C; no fault is placed on the diagnostics channel.",
                technique="deterministic simulation: history invariants over event log + I/O fault enumeration on output files",
                design="4. C02"),
    "C03": dict(level="fault_enumeration",
                text="Complete enumeration of storage faults on reference code files (every truncation, bit flips, field edits, "
                     "every crash point of the real asl code-file writer on the simulated disk) fed to every utility, plus seeded "
                     "search over source-level faults (EOF at line boundaries of the golden corpus, byte mutations, a finite "
                     "pseudo-instruction vocabulary, raw bytes) against ASan builds inside the simulator; a sampled claim, not a proof.",
                note="Trusted: simrt file layer, ASan, the documented exit-code sets; hang = event/line budget or 20 s CPU, replayed before it counts.",
                technique="deterministic simulation: fault enumeration on an in-memory disk (truncate/flip/torn-writer) + seeded input search under ASan",
                design="4. C03"),
}
NA_PURE = {
    "C05": "p2bin output is a pure function of code files and options; no schedule, fault or history in the statement (its crash/IO behaviour is covered under C03)",
    "C06": "p2hex checksums/addresses are pure arithmetic over record contents and options; needs reference decoders, not simulation",
    "C07": "pbind/plist are pure functions of the input record sequence processed in argv order; no interleaving or fault in the statement",
    "C08": "expression evaluation is a pure function of expression text and radix/syntax settings",
    "C09": "data-definition encodings are pure functions of arguments, target and mode settings",
    "C10": "address bookkeeping is a sequential state machine driven only by the statement sequence of one pass; cross-pass/file leaks are C01/C18",
    "C11": "macro/repetition transparency is an equivalence between two source texts; inclusion is deterministic reads of fixed files",
    "C12": "branch selection is a pure function of condition values and nesting; stack-empty clause only observable as cross-file leakage (C18)",
    "C13": "name resolution is a pure function of the section tree and definition order",
    "C14": "instruction encoding is table look-up and range checks per instruction; pure",
    "C15": "dasl round trip composes run-to-completion tools over fixed bytes; pure",
    "C16": "metamorphic relation over source spelling; CR-LF/INCLUDE variants are different inputs, not schedules or faults",
    "C20": "diagnostic positions are a pure function of include/macro nesting of the input; no clock, fault or cross-file history involved",
}
PENDING = {}

ORDER = ["C01", "C02", "C03", "C04", "C17", "C18", "C19"]


def main():
    commits = subprocess.run(["git", "-C", "/repo", "log", "--format=%H %s", "d9f49b6..HEAD"], capture_output=True,
                             text=True).stdout.strip().splitlines()
    hooks = [c.split()[0] for c in commits if " verif hook" in c]
    checks = []
    for pid in ORDER:
        if pid not in CLAIMED:
            continue
        c = CLAIMED[pid]
        checks.append({
            "property_id": pid,
            "quick_cmd": "./check %s --tier quick" % pid,
            "thorough_cmd": "./check %s --tier thorough" % pid,
            "evidence_file": "/verif/evidence/%s.json" % pid,
            "replay_cmd_template": "./check %s --replay {path}" % pid,
            "engine": "aslsim",
            "level_claimed": {"category": c["level"], "text": c["text"], "design_ref": c["design"]},
            "level_note": c["note"],
            "technique": c["technique"],
        })
    na = [{"property_id": k, "reason": v} for k, v in sorted(NA_PURE.items())]
    na += [{"property_id": k, "reason": v} for k, v in sorted(PENDING.items()) if k not in CLAIMED]
    m = {
        "version": 1,
        "setup_cmd": "./check build",
        "hooks": {
            "guard": "FLAMEWING_ASL_VERIF",
            "enable": "cmake -DCMAKE_C_FLAGS='-DFLAMEWING_ASL_VERIF ...' into /verif/build/{asan,plain} (aslsim/build.py), simrt.o linked with -Wl,--wrap=main,fopen,unlink,remove,stat,fstat,getcwd,time,gettimeofday,localtime",
            "baseline_off_cmd": "./check baseline",
            "source_commits": hooks,
            "add_only": True,
        },
        "engines": [{"name": "aslsim", "path": "/verif/aslsim + /verif/simrt/simrt.c", "serves_properties": [c["property_id"] for c in checks],
                     "kind_free_text": "deterministic simulation: the repository's real executables, link-time wrapped (fopencookie in-memory disk, simulated clock/env/cwd, fork server), driven by a seeded orchestrator that injects storage faults, writer crashes, pass schedules, file histories and environment perturbations"}],
        "checks": checks,
        "not_applicable": na,
        "notes": "See DESIGN.md. Known findings and fixed defects: known_findings.json. Seeded breaking changes: seeded/.",
    }
    json.dump(m, open("MANIFEST.json", "w"), indent=1)
    print("MANIFEST.json written: %d checks, %d not applicable" % (len(checks), len(na)))


if __name__ == "__main__":
    main()
